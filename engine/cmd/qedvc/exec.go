package main

// Symbolic execution of naive-form SSA, path by path, producing verification
// conditions. Loops are cut at their invariants; calls are replaced by
// contracts (or inlined when the callee has none and is a module function).

import (
	"fmt"
	"go/constant"
	"go/types"
	"math/big"
	"regexp"
	"strconv"
	"strings"

	"golang.org/x/tools/go/ssa"
)

type FuncResult struct {
	Fn       *ssa.Function
	Key      string
	Contract *Contract
	VCs      []*VC
	Paths    int
	Errors   []string // untranslatable constructs (function is UNDECIDED)
	Notes    []string // imprecision notes (havocs)
	Assumed  map[string]bool
	noteSeen map[string]bool
	covSeen  map[string]bool
}

func (r *FuncResult) note(s string) {
	if r.noteSeen == nil {
		r.noteSeen = map[string]bool{}
	}
	if !r.noteSeen[s] {
		r.noteSeen[s] = true
		r.Notes = append(r.Notes, s)
	}
}

type deferred struct {
	call  *ssa.CallCommon
	args  []Value
	fnv   Value
	instr ssa.Instruction
}

type Frame struct {
	fn         *ssa.Function
	regs       map[ssa.Value]Value
	cells      map[*ssa.Alloc]*Cell
	cellOrder  []*ssa.Alloc
	fvCells    map[*ssa.FreeVar]Value
	block      *ssa.BasicBlock
	prev       *ssa.BasicBlock
	idx        int
	defers     []deferred
	loopActive map[*ssa.BasicBlock]bool
	loopMeasure map[*ssa.BasicBlock]string
	loopSets   map[*ssa.BasicBlock]*modSet
	contract   *Contract
	retTo      ssa.Instruction // call instruction in caller (inlined frames)
	params     []Value
	inlTag     string // obligation-name prefix for inlined frames
	discard    bool   // results discarded (deferred call)
	afterDefers bool
	pendingRecover bool
	iter       *iterCheck // this frame is one invocation of a callback (see iterate.go)
}

type State struct {
	eng      *Engine
	res      *FuncResult
	frames   []*Frame
	heap     *Heap
	oldHeap  *Heap
	cellVals map[*Cell]Value
	allocTop string
	allocTop0 string
	asserts  *plist
	decls    *plist
	modsets  []*modSet
	entryVars map[string]Value // parameter entry values (for specs)
	dead     bool
	steps    int
	clauseProps []string
	known    map[string]bool
	panicking bool
	pendingForks []*State
	mapWitness []mapWit
	calleePkgs []string // packages whose code runs in the call being havocked (nil: unknown)
	epochTop   map[int]string // allocation top when the heap of that epoch came into being (copy on write)
	// range-over-map loops: the set of keys already delivered by each active iterator
	// ((Array K Bool) term; copy on write). Lets a loop invariant speak about "visited(k)".
	rangeVis map[*rangeState]string
	// append: "" (decide here, forking the path), or the branch a forked state has to take
	// when it re-executes the append it was forked at: "fresh"
	appendMode string
	// the write being checked against the frames (for entries decided from static types)
	frameIns ssa.Instruction
	frameT   types.Type
}

// uncheckedPanics: the function under verification is declared unchecked_panics (its contract
// speaks about the runs that do not panic only).
func (st *State) uncheckedPanics() bool {
	c := st.frames[0].contract
	if c != nil && c.UncheckedPanics {
		st.res.Assumed["run-time panics of "+c.Pkg+"."+c.Name+" are not checked (unchecked_panics: its contract is about the runs that complete)"] = true
		return true
	}
	return false
}

// typeWithin: t is elemT or the type of a (nested) field of the struct elemT, i.e. a location
// of type t can lie inside an element of an array of elemT.
func typeWithin(t, elemT types.Type) bool {
	if types.Identical(t, elemT) {
		return true
	}
	switch u := elemT.Underlying().(type) {
	case *types.Struct:
		for i := 0; i < u.NumFields(); i++ {
			if typeWithin(t, u.Field(i).Type()) {
				return true
			}
		}
	case *types.Array:
		return typeWithin(t, u.Elem())
	}
	return false
}

// mayWriteArrayOf: can the store ins write into (an element of) an array whose elements have
// type elemT? Decided from the static shape of the address: an index into a slice or array of
// another element type, or a pointer whose target type cannot lie inside an elemT, cannot.
func mayWriteArrayOf(ins ssa.Instruction, elemT types.Type) bool {
	s, ok := ins.(*ssa.Store)
	if !ok {
		return true
	}
	v := s.Addr
	for {
		switch x := v.(type) {
		case *ssa.FieldAddr:
			v = x.X
			continue
		case *ssa.IndexAddr:
			var et types.Type
			switch u := x.X.Type().Underlying().(type) {
			case *types.Slice:
				et = u.Elem()
			case *types.Pointer:
				if a, ok := u.Elem().Underlying().(*types.Array); ok {
					et = a.Elem()
				}
			}
			if et == nil {
				return true
			}
			if types.Identical(et, elemT) {
				return true
			}
			// an element of another array: it lies in an elemT array only if that array is itself
			// inside an elemT (fixed-size array fields)
			if p, ok := x.X.Type().Underlying().(*types.Pointer); ok {
				return typeWithin(p.Elem(), elemT)
			}
			return false
		case *ssa.Alloc:
			return false
		}
		break
	}
	if p, ok := v.Type().Underlying().(*types.Pointer); ok {
		return typeWithin(p.Elem(), elemT)
	}
	return true
}

func (st *State) setVis(rs *rangeState, t string) {
	m := make(map[*rangeState]string, len(st.rangeVis)+1)
	for k, v := range st.rangeVis {
		m[k] = v
	}
	m[rs] = t
	st.rangeVis = m
}

// mapWit: a map entry the path relied on (range step or lookup); used to give
// maps concrete contents when a counterexample is replayed.
type mapWit struct {
	m    string
	k, v Value
	cond string
}

type counter struct{ n int }

var freshCtr counter

func (st *State) fresh(prefix string, s Sort) string {
	freshCtr.n++
	name := fmt.Sprintf("%s!%d", sanitizeIdent(prefix), freshCtr.n)
	name = "|" + name + "|"
	st.decls = st.decls.push(fmt.Sprintf("(declare-const %s %s)", name, s))
	return name
}

func sanitizeIdent(s string) string {
	return strings.Map(func(r rune) rune {
		if r == '|' || r == '\\' || r == ' ' || r == '(' || r == ')' || r == ';' || r == '"' {
			return '_'
		}
		return r
	}, s)
}

func (st *State) assume(t string) {
	if t == "true" {
		return
	}
	if st.known == nil {
		st.known = map[string]bool{}
	}
	if st.known[t] {
		return
	}
	st.known[t] = true
	var flat func(t string)
	flat = func(t string) {
		if strings.HasPrefix(t, "(and ") {
			for _, c := range splitTop(t[5 : len(t)-1]) {
				st.known[c] = true
				flat(c)
			}
		}
	}
	flat(t)
	st.asserts = st.asserts.push(t)
}

// define names a term when it is large, to keep VCs small.
func (st *State) define(prefix string, t string, s Sort) string {
	if len(t) < 96 {
		return t
	}
	n := st.fresh(prefix, s)
	st.assume(eq(n, t))
	return n
}

func (st *State) clone() *State {
	n := *st
	n.frames = make([]*Frame, len(st.frames))
	for i, f := range st.frames {
		nf := *f
		nf.regs = make(map[ssa.Value]Value, len(f.regs))
		for k, v := range f.regs {
			nf.regs[k] = v
		}
		nf.cells = make(map[*ssa.Alloc]*Cell, len(f.cells))
		for k, v := range f.cells {
			nf.cells[k] = v
		}
		nf.cellOrder = append([]*ssa.Alloc(nil), f.cellOrder...)
		nf.defers = append([]deferred(nil), f.defers...)
		nf.loopActive = make(map[*ssa.BasicBlock]bool, len(f.loopActive))
		for k, v := range f.loopActive {
			nf.loopActive[k] = v
		}
		nf.loopMeasure = make(map[*ssa.BasicBlock]string, len(f.loopMeasure))
		for k, v := range f.loopMeasure {
			nf.loopMeasure[k] = v
		}
		nf.loopSets = make(map[*ssa.BasicBlock]*modSet, len(f.loopSets))
		for k, v := range f.loopSets {
			nf.loopSets[k] = v
		}
		n.frames[i] = &nf
	}
	n.heap = st.heap.clone()
	if st.oldHeap != nil {
		n.oldHeap = st.oldHeap.clone() // lazily initialised entries are declared per path
	}
	n.cellVals = make(map[*Cell]Value, len(st.cellVals))
	for k, v := range st.cellVals {
		n.cellVals[k] = v
	}
	n.modsets = append([]*modSet(nil), st.modsets...)
	n.pendingForks = nil
	n.known = make(map[string]bool, len(st.known))
	for k := range st.known {
		n.known[k] = true
	}
	return &n
}

func (st *State) top() *Frame { return st.frames[len(st.frames)-1] }

// ---------------------------------------------------------------------------
// obligations

func (st *State) oblige(kind, name, goal, note string) {
	if goal != "true" && st.known[goal] {
		goal = "true"
	}
	if goal == "true" {
		// discharged by construction; still counted
		st.res.VCs = append(st.res.VCs, &VC{Name: name, Func: st.res.Key, Kind: kind, Goal: "true", Note: note, Result: "unsat", Solver: "trivial"})
		return
	}
	f := st.top()
	if f.inlTag != "" {
		name = f.inlTag + name
	}
	mv := st.modelVars()
	asserts := st.asserts.slice()
	if strings.Contains(goal, "(forall ((") {
		goal, asserts = st.pointwise(goal, asserts)
	}
	lem, pairwise, inj := bytesLemmas(goal, asserts)
	if len(lem) > 0 {
		asserts = append(asserts[:len(asserts):len(asserts)], lem...)
	}
	if len(pairwise) > 0 && len(pairwise) <= 600 {
		// few enough: no second stage needed
		asserts = append(asserts[:len(asserts):len(asserts)], pairwise...)
		pairwise = nil
		if inj {
			st.res.Assumed["collision resistance: H(x) = H(y) ==> x = y is used as an axiom for the hash function"] = true
		}
	}
	vc := &VC{Name: name, Func: st.res.Key, Kind: kind, Goal: goal, Note: note,
		Decls: st.decls.slice(), Asserts: asserts, Props: st.clauseProps, ModelVars: mv, Pairwise: pairwise, PairwiseInj: inj}
	if strings.Contains(goal, "(forall ") || strings.Contains(goal, "(exists ") {
		vc.Quant = true
	}
	st.res.VCs = append(st.res.VCs, vc)
}

func (st *State) pos(ins ssa.Instruction) string {
	p := ins.Pos()
	if !p.IsValid() {
		// search nearby instruction positions
		if b := ins.Block(); b != nil {
			for _, i2 := range b.Instrs {
				if i2.Pos().IsValid() {
					p = i2.Pos()
					break
				}
			}
		}
	}
	if !p.IsValid() {
		return ""
	}
	ps := st.eng.prog.Fset.Position(p)
	return fmt.Sprintf("%s:%d", strings.TrimPrefix(ps.Filename, repoDir+"/"), ps.Line)
}

func (st *State) panicOb(ins ssa.Instruction, kind string, goal string, what string) {
	if other, rec := st.maybePanic(goal); rec {
		if other != nil {
			st.pendingForks = append(st.pendingForks, other)
		}
		st.assume(goal)
		return
	}
	if st.uncheckedPanics() {
		st.assume(goal)
		return
	}
	f := st.top()
	name := "panic:" + st.eng.ordinal(f.fn, ins, kind)
	st.oblige("panic", name, goal, what+" at "+st.pos(ins))
	st.assume(goal) // execution continues only if no panic
}

// ---------------------------------------------------------------------------
// heap

func (st *State) heapGet(h *Heap, name string, s Sort) string {
	if t, ok := h.m[name]; ok {
		return t
	}
	init := fmt.Sprintf("%s_e%d", name, h.epoch)
	if strings.HasPrefix(name, "pf_") {
		init = fmt.Sprintf("%s_e%d", name, h.pfEpoch[pfID(name)])
	}
	if strings.HasPrefix(name, "imm_") || strings.HasPrefix(name, "ghost_") {
		init = name + "_e0" // immutable fields are never havocked: one initial array for all epochs
	}
	st.declareOnce(init, s)
	h.m[name] = init
	h.sorts[name] = s
	// the same initial name must be visible in the other heap snapshot of the same epoch
	return init
}

func (st *State) declareOnce(name string, s Sort) {
	d := fmt.Sprintf("(declare-const %s %s)", name, s)
	for p := st.decls; p != nil; p = p.parent {
		if p.item == d {
			return
		}
	}
	st.decls = st.decls.push(d)
}

func (st *State) heapSet(name string, s Sort, t string) {
	st.heap.sorts[name] = s
	if len(t) > 160 {
		n := st.fresh(name, s)
		st.assume(eq(n, t))
		t = n
	}
	st.heap.m[name] = t
}

func memName(s Sort) string   { return "mem_" + s.Mangle() }
func elemsName(s Sort) string { return "elems_" + s.Mangle() }

func (st *State) memArr(h *Heap, s Sort) string {
	return st.heapGet(h, memName(s), ArrSort(SRef, s))
}
func (st *State) elemsArr(h *Heap, s Sort) string {
	return st.heapGet(h, elemsName(s), ArrSort(SRef, ArrSort(BV(64), s)))
}

func sub(p string, f int) string { return fmt.Sprintf("(sub %s %d)", p, f) }
func elemAddr(p, i string) string { return app("elem", p, i) }

// loadH reads a value of Go type T at address addr in heap h.
func (st *State) loadH(h *Heap, addr string, T types.Type) Value {
	te := st.eng.te
	s := te.SortOf(T)
	switch u := T.Underlying().(type) {
	case *types.Struct:
		var fs []string
		for i := 0; i < u.NumFields(); i++ {
			fs = append(fs, st.loadH(h, st.eng.fsub(addr, T, i), u.Field(i).Type()).Term)
		}
		return Value{T: T, S: s, Term: te.StructMk(s, fs)}
	case *types.Array:
		es := te.SortOf(u.Elem())
		return Value{T: T, S: s, Term: app("select", st.elemsArr(h, es), addr)}
	}
	var t string
	switch {
	case isImmAddr(addr):
		name, _ := immArray(addr, s)
		t = app("select", st.heapGet(h, name, ArrSort(SRef, s)), addr)
	case strings.HasPrefix(addr, "(elem "):
		a := splitTop(addr[6 : len(addr)-1])
		t = app("select", app("select", st.elemsArr(h, s), a[0]), a[1])
	case strings.HasPrefix(addr, "(sub ") || strings.HasPrefix(addr, "(mkref "):
		t = app("select", st.memArr(h, s), addr)
	default:
		t = ite(app("(_ is elem)", addr),
			app("select", app("select", st.elemsArr(h, s), app("elem_p", addr)), app("elem_i", addr)),
			app("select", st.memArr(h, s), addr))
	}
	v := Value{T: T, S: s, Term: t}
	return v
}

func (st *State) load(addr string, T types.Type) Value {
	v := st.loadH(st.heap, addr, T)
	raw := v.Term
	v.Term = st.define("ld", v.Term, v.S)
	st.assumeWF(v)
	st.assumeBaseAge(raw, v.S)
	return v
}

var epochSuffix = regexp.MustCompile(`_e(\d+)$`)

// assumeBaseAge: whatever reference the heap held when it came into being (at entry, or
// right after a havoc) points to an object that existed then, so it cannot alias anything
// allocated later. raw is (select ARR addr) with ARR a chain of stores over a base array.
func (st *State) assumeBaseAge(raw string, s Sort) {
	if f := st.baseAgeFact(raw, s, false); f != "" {
		st.assume(f)
	}
}

// stripStores peels (store X a v) wrappers off an array term.
func stripStores(arr string) (string, bool) {
	for strings.HasPrefix(arr, "(store ") {
		b := splitTop(arr[7 : len(arr)-1])
		if len(b) != 3 {
			return "", false
		}
		arr = b[0]
	}
	return arr, true
}

// baseAgeFact: see assumeBaseAge. raw is (select ARR addr) for fields, or
// (select (select ELEMS ref) idx) for slice/array elements. With always, the fact is
// produced even when the base heap is the current one (specification-level reads carry
// no validity assumption of their own).
func (st *State) baseAgeFact(raw string, s Sort, always bool) string {
	if s != SRef && s != SSlice && s != SIface {
		return ""
	}
	if strings.HasPrefix(raw, "(ite ") {
		// a map lookup: (ite present (select ...) zero)
		p := splitTop(raw[5 : len(raw)-1])
		if len(p) != 3 {
			return ""
		}
		fa, fb := st.baseAgeFact(p[1], s, always), st.baseAgeFact(p[2], s, always)
		if fa == "" && fb == "" {
			return ""
		}
		if fa == "" {
			fa = "true"
		}
		if fb == "" {
			fb = "true"
		}
		return app("ite", p[0], fa, fb)
	}
	if !strings.HasPrefix(raw, "(select ") {
		return ""
	}
	a := splitTop(raw[8 : len(raw)-1])
	if len(a) != 2 {
		return ""
	}
	arr, ok := stripStores(a[0])
	if !ok {
		return ""
	}
	var r string
	owner := a[1] // the address read: only objects that existed then are covered
	if strings.HasPrefix(arr, "(select ") {
		// element of a slice: (select (select ELEMS ref) idx)
		in := splitTop(arr[8 : len(arr)-1])
		if len(in) != 2 {
			return ""
		}
		base, ok := stripStores(in[0])
		if !ok || strings.ContainsAny(base, "( ") {
			return ""
		}
		arr = base
		owner = in[1]
		r = app("select", app("select", base, in[1]), a[1])
	} else {
		if strings.ContainsAny(arr, "( ") {
			return "" // not a base array
		}
		r = app("select", arr, a[1])
	}
	m := epochSuffix.FindStringSubmatch(strings.Trim(arr, "|"))
	if m == nil {
		return ""
	}
	ep, _ := strconv.Atoi(m[1])
	top := st.allocTop0
	if ep != 0 {
		top = st.epochTop[ep]
	}
	if top == "" || (top == st.allocTop && !always) {
		return ""
	}
	switch s {
	case SSlice:
		r = app("s_ref", r)
	case SIface:
		r = app("i_ref", r)
	}
	// (an object allocated later, e.g. by a callee, may well hold later references)
	return imp(app("<", rootID(owner), top), and(app("<", app("rid", r), top), app(">=", app("rid", r), "0")))
}

func (st *State) assumeWF(v Value) {
	if v.T == nil || v.Term == "" {
		return
	}
	st.assume(st.eng.te.WF(v.T, v.Term, 0))
	if len(st.eng.cs.TypeInvs) > 0 {
		if _, isPtr := v.T.Underlying().(*types.Pointer); !isPtr {
			st.assume(st.typeInvTerm(v, st.heap))
		}
	}
	if v.S == SRef {
		st.assume(st.validRef(v.Term))
		st.assume(st.typedRef(v.Term, v.T))
	}
	if v.S == SSlice {
		st.assume(st.validRef(app("s_ref", v.Term)))
		// elements of a []*T (T a named struct) are typed storage as well
		if sl, ok := v.T.Underlying().(*types.Slice); ok {
			if tr := st.typedRef("ELEM", sl.Elem()); tr != "true" {
				arr := app("select", st.elemsArr(st.heap, SRef), app("s_ref", v.Term))
				el := app("select", arr, "tq_k")
				// ... and every element is an object that already exists (so a later allocation cannot alias it)
				body := and(strings.ReplaceAll(tr, "ELEM", el), app("<", app("rid", el), st.allocTop))
				st.assume(fmt.Sprintf("(forall ((tq_k (_ BitVec 64))) (! %s :pattern (%s)))", body, el))
			}
		}
	}
	if v.S == SIface {
		st.assume(st.validRef(app("i_ref", v.Term)))
	}
}

// rootID gives the allocation id of the object a reference points into.
func rootID(r string) string {
	for {
		switch {
		case strings.HasPrefix(r, "(sub "):
			a := splitTop(r[5 : len(r)-1])
			r = a[0]
		case strings.HasPrefix(r, "(elem "):
			a := splitTop(r[6 : len(r)-1])
			r = a[0]
		case strings.HasPrefix(r, "(mkref "):
			return r[7 : len(r)-1]
		default:
			return app("rid", r)
		}
	}
}

// typedRef: storage is typed. A non-nil pointer of static type *T (T a named
// struct type) points to storage of type T, so pointers to different struct
// types never alias (interior pointers are structurally distinct Ref terms).
func (st *State) typedRef(r string, T types.Type) string {
	if T == nil {
		return "true"
	}
	pt, ok := T.Underlying().(*types.Pointer)
	if !ok {
		return "true"
	}
	n, ok := pt.Elem().(*types.Named)
	if !ok {
		return "true"
	}
	if _, isStruct := n.Underlying().(*types.Struct); !isStruct {
		return "true"
	}
	st.eng.pre.Fun("rtype", "(Ref) Int")
	return imp(not(eq(r, nilRef)), eq(app("rtype", r), fmt.Sprint(st.eng.te.TypeID(n))))
}

func (st *State) validRef(r string) string {
	if strings.HasPrefix(r, "(mkref ") || strings.HasPrefix(r, "(sub ") || strings.HasPrefix(r, "(elem ") {
		return "true"
	}
	return and(app("<", app("rid", r), st.allocTop), app(">=", app("rid", r), "0"))
}

func (st *State) storeMem(addr string, T types.Type, v Value) {
	te := st.eng.te
	s := te.SortOf(T)
	switch u := T.Underlying().(type) {
	case *types.Struct:
		for i := 0; i < u.NumFields(); i++ {
			ft := u.Field(i).Type()
			st.storeMem(st.eng.fsub(addr, T, i), ft, Value{T: ft, S: te.SortOf(ft), Term: te.StructGet(s, i, v.Term)})
		}
		return
	case *types.Array:
		es := te.SortOf(u.Elem())
		st.heapSet(elemsName(es), ArrSort(SRef, ArrSort(BV(64), es)), app("store", st.elemsArr(st.heap, es), addr, v.Term))
		return
	}
	term := v.Term
	if term == "" {
		term = st.materialize(v)
	}
	storeElem := func() string {
		var p, i string
		if strings.HasPrefix(addr, "(elem ") {
			a := splitTop(addr[6 : len(addr)-1])
			p, i = a[0], a[1]
		} else {
			p, i = app("elem_p", addr), app("elem_i", addr)
		}
		arr := st.elemsArr(st.heap, s)
		return app("store", arr, p, app("store", app("select", arr, p), i, term))
	}
	switch {
	case isImmAddr(addr):
		name, _ := immArray(addr, s)
		st.heapSet(name, ArrSort(SRef, s), app("store", st.heapGet(st.heap, name, ArrSort(SRef, s)), addr, term))
	case strings.HasPrefix(addr, "(elem "):
		st.heapSet(elemsName(s), ArrSort(SRef, ArrSort(BV(64), s)), storeElem())
	case strings.HasPrefix(addr, "(sub ") || strings.HasPrefix(addr, "(mkref "):
		st.heapSet(memName(s), ArrSort(SRef, s), app("store", st.memArr(st.heap, s), addr, term))
	default:
		isE := app("(_ is elem)", addr)
		st.heapSet(elemsName(s), ArrSort(SRef, ArrSort(BV(64), s)), ite(isE, storeElem(), st.elemsArr(st.heap, s)))
		st.heapSet(memName(s), ArrSort(SRef, s), ite(isE, st.memArr(st.heap, s), app("store", st.memArr(st.heap, s), addr, term)))
	}
}

// materialize turns executor-level values (closures) into opaque terms.
func (st *State) materialize(v Value) string {
	if v.Term != "" {
		return v.Term
	}
	if v.Fn != nil {
		c := st.fresh("closure_"+v.Fn.Name(), SRef)
		st.assume(not(eq(c, nilRef)))
		return c
	}
	if v.Loc != nil {
		st.res.Errors = append(st.res.Errors, "pointer to local cell escapes: "+v.Loc.Cell.Name)
		return st.fresh("escaped", SRef)
	}
	s := SRef
	if v.T != nil {
		s = st.eng.te.SortOf(v.T)
	}
	return st.fresh("opaque", s)
}

// newObject allocates a fresh heap object.
func (st *State) newObject() string {
	r := app("mkref", st.allocTop)
	nt := st.fresh("top", SInt)
	st.assume(eq(nt, app("+", st.allocTop, "1")))
	st.allocTop = nt
	return r
}

func (st *State) freshValue(prefix string, T types.Type) Value {
	if tup, ok := T.(*types.Tuple); ok {
		var vs []Value
		for i := 0; i < tup.Len(); i++ {
			vs = append(vs, st.freshValue(fmt.Sprintf("%s.%d", prefix, i), tup.At(i).Type()))
		}
		return Value{T: T, S: "Tuple", Tuple: vs}
	}
	s := st.eng.te.SortOf(T)
	v := Value{T: T, S: s, Term: st.fresh(prefix, s)}
	st.assumeWF(v)
	return v
}

// havocAll forgets everything about the heap.
func (st *State) havocAll(why string) {
	st.res.note("heap havocked: " + why)
	old := st.heap
	st.heap = &Heap{m: map[string]string{}, sorts: map[string]Sort{}, epoch: st.heap.epoch + 1 + freshCtr.n, pfEpoch: map[int]int{}}
	// package-private fields: only code that can reach the owning package can write them
	pkgs := st.calleePkgs
	st.calleePkgs = nil
	for id, ep := range old.pfEpoch {
		st.heap.pfEpoch[id] = ep
	}
	writable := map[int]bool{}
	for id := range st.eng.privByID {
		if pkgs == nil || st.eng.canWrite(id, pkgs) {
			writable[id] = true
			st.heap.pfEpoch[id] = st.heap.epoch
		}
	}
	for k, v := range old.m {
		if strings.HasPrefix(k, "pf_") && !writable[pfID(k)] {
			st.heap.m[k] = v
			st.heap.sorts[k] = old.sorts[k]
		}
	}
	for k, v := range old.m {
		// immutable fields are never havocked; ghost variables change only through
		// contracts that name them (no code can touch them)
		if strings.HasPrefix(k, "imm_") || strings.HasPrefix(k, "ghost_") {
			st.heap.m[k] = v
			st.heap.sorts[k] = old.sorts[k]
		}
	}
	st.havocProbes()
	// ASSUMPTION (listed in the evidence): the other ghost variables stand for operations
	// (store writes, proposals, alerts, ...) that code without a contract is assumed not to reach
	if strings.HasPrefix(why, "call") {
		st.res.Assumed["code called without a contract ("+why+") is assumed not to perform any ghost-tracked operation"] = true
	}
	nt := st.fresh("top", SInt)
	st.assume(app(">=", nt, st.allocTop))
	st.allocTop = nt
	et := make(map[int]string, len(st.epochTop)+1)
	for k, v := range st.epochTop {
		et[k] = v
	}
	et[st.heap.epoch] = nt
	st.epochTop = et
}

// ---------------------------------------------------------------------------
// local cells

func (st *State) readLoc(l *Loc) Value {
	v := st.cellVals[l.Cell]
	for _, p := range l.Path {
		v = st.project(v, p)
	}
	return v
}

func (st *State) project(v Value, p step) Value {
	te := st.eng.te
	if p.field >= 0 {
		stt := v.T.Underlying().(*types.Struct)
		ft := stt.Field(p.field).Type()
		return Value{T: ft, S: te.SortOf(ft), Term: te.StructGet(v.S, p.field, v.Term)}
	}
	at := v.T.Underlying().(*types.Array)
	return Value{T: at.Elem(), S: te.SortOf(at.Elem()), Term: app("select", v.Term, p.index)}
}

func (st *State) writeLoc(l *Loc, nv Value) {
	if len(l.Path) == 0 {
		st.cellVals[l.Cell] = nv
		return
	}
	old := st.cellVals[l.Cell]
	st.cellVals[l.Cell] = st.updatePath(old, l.Path, nv)
}

func (st *State) updatePath(v Value, path []step, nv Value) Value {
	if len(path) == 0 {
		if nv.Term == "" {
			nv.Term = st.materialize(nv)
		}
		return nv
	}
	te := st.eng.te
	p := path[0]
	if p.field >= 0 {
		stt := v.T.Underlying().(*types.Struct)
		var fs []string
		for i := 0; i < stt.NumFields(); i++ {
			ft := stt.Field(i).Type()
			fv := Value{T: ft, S: te.SortOf(ft), Term: te.StructGet(v.S, i, v.Term)}
			if i == p.field {
				fv = st.updatePath(fv, path[1:], nv)
			}
			fs = append(fs, fv.Term)
		}
		return Value{T: v.T, S: v.S, Term: te.StructMk(v.S, fs)}
	}
	at := v.T.Underlying().(*types.Array)
	ev := Value{T: at.Elem(), S: te.SortOf(at.Elem()), Term: app("select", v.Term, p.index)}
	ev = st.updatePath(ev, path[1:], nv)
	return Value{T: v.T, S: v.S, Term: app("store", v.Term, p.index, ev.Term)}
}

// ---------------------------------------------------------------------------
// operands

func (st *State) eval(v ssa.Value) Value {
	f := st.top()
	te := st.eng.te
	switch x := v.(type) {
	case *ssa.Const:
		return st.constVal(x)
	case *ssa.Function:
		return Value{T: x.Type(), S: SRef, Fn: x}
	case *ssa.Global:
		return Value{T: x.Type(), S: SRef, Term: st.globalAddr(x)}
	case *ssa.Builtin:
		return Value{T: x.Type(), S: SRef, Term: "builtin:" + x.Name()}
	case *ssa.FreeVar:
		if fv, ok := f.fvCells[x]; ok {
			return fv
		}
	}
	if r, ok := f.regs[v]; ok {
		return r
	}
	st.res.Errors = append(st.res.Errors, fmt.Sprintf("no value for %s (%T) in %s", v.Name(), v, f.fn.Name()))
	return st.freshValue("undef", v.Type())
	_ = te
	return Value{}
}

var globalIDs = map[string]int{}

func (st *State) globalAddr(g *ssa.Global) string {
	k := g.Pkg.Pkg.Path() + "." + g.Name()
	st.eng.mu.Lock()
	id, ok := globalIDs[k]
	if !ok {
		id = len(globalIDs) + 1
		globalIDs[k] = id
	}
	st.eng.mu.Unlock()
	return sub(nilRef, id)
}

func (st *State) constVal(c *ssa.Const) Value {
	te := st.eng.te
	T := c.Type()
	s := te.SortOf(T)
	if c.Value == nil {
		return Value{T: T, S: s, Term: te.Zero(T)}
	}
	switch c.Value.Kind() {
	case constant.Bool:
		if constant.BoolVal(c.Value) {
			return Value{T: T, S: SBool, Term: "true"}
		}
		return Value{T: T, S: SBool, Term: "false"}
	case constant.String:
		return Value{T: T, S: SStr, Term: st.eng.pre.StrLit(constant.StringVal(c.Value))}
	case constant.Int:
		if s.IsBV() {
			bi, _ := new(big.Int).SetString(c.Value.ExactString(), 10)
			return Value{T: T, S: s, Term: bvLit(bi, s.Bits())}
		}
		if s == SFloat {
			return Value{T: T, S: s, Term: st.floatLit(c.Value.ExactString())}
		}
	case constant.Float, constant.Complex:
		return Value{T: T, S: SFloat, Term: st.floatLit(c.Value.ExactString())}
	}
	return st.freshValue("const", T)
}

func (st *State) floatLit(s string) string {
	n := "float_" + strings.NewReplacer("/", "_over_", ".", "_", "-", "m", "+", "p", " ", "", "(", "", ")", "", "i", "i").Replace(s)
	st.eng.pre.Fun(n, "() Float")
	return n
}

// ---------------------------------------------------------------------------
// running

type worklist struct {
	states []*State
}

// Verify generates the VCs of one function under its contract.
func (e *Engine) Verify(fn *ssa.Function, c *Contract) *FuncResult {
	res := &FuncResult{Fn: fn, Key: fnKey(fn), Contract: c, Assumed: map[string]bool{}}
	if fn.Blocks == nil {
		res.Errors = append(res.Errors, "no body")
		return res
	}
	defer func() {
		if r := recover(); r != nil {
			res.Errors = append(res.Errors, fmt.Sprintf("engine panic: %v", r))
			if os_debug {
				panic(r)
			}
		}
	}()
	// clauses addressed by ordinal must address something: a `call k invariant` whose k-th call
	// is not a callback iteration, or a `loop k ...` beyond the function's loops, would be
	// ignored in silence (and whatever it was meant to carry would be missing or vacuous)
	if c != nil {
		for k := range c.CallInvs {
			ok := false
			for _, b := range fn.Blocks {
				for _, ins := range b.Instrs {
					ci, isCall := ins.(ssa.CallInstruction)
					if !isCall || e.ordinal(fn, ins, "call") != fmt.Sprintf("call@%d", k) {
						continue
					}
					var cc *Contract
					if callee := ci.Common().StaticCallee(); callee != nil {
						cc = e.fnContract[callee]
					} else if ci.Common().IsInvoke() {
						cc = e.methContract[ci.Common().Method]
					}
					if cc != nil && len(cc.Iterates) > 0 {
						ok = true
					}
				}
			}
			if !ok {
				res.Errors = append(res.Errors, fmt.Sprintf("contract has `call %d invariant` but call #%d of %s is not a call that iterates a callback", k, k, fnKey(fn)))
			}
		}
		for name := range c.AtAsserts {
			ok := false
			if p := fn.Parent(); (p != nil && strings.HasPrefix(name, p.Name()+".")) || strings.HasPrefix(name, fn.Name()+".") {
				// a sibling closure (or this one), called through the variable it is bound to: not a
				// static callee; the check after the run (an obligation was produced) covers it
				ok = true
			}
			for _, b := range fn.Blocks {
				for _, ins := range b.Instrs {
					if ci, isCall := ins.(ssa.CallInstruction); isCall {
						if callee := ci.Common().StaticCallee(); callee != nil && (shortName(callee) == name || (callee.Signature.Recv() == nil && callee.Parent() == nil && callee.Name() == name)) {
							ok = true
						} else if ci.Common().IsInvoke() && strings.HasSuffix(name, "."+ci.Common().Method.Name()) {
							ok = true
						}
					}
				}
			}
			if !ok {
				res.Errors = append(res.Errors, fmt.Sprintf("contract has `at %s assert` but %s does not call %s", name, fnKey(fn), name))
			}
		}
		nLoops := len(e.loops(fn).headers)
		for k := range c.Loops {
			if k < 1 || k > nLoops {
				res.Errors = append(res.Errors, fmt.Sprintf("contract has clauses for loop %d but %s has %d loop(s)", k, fnKey(fn), nLoops))
			}
		}
		if len(res.Errors) > 0 {
			return res
		}
	}
	st := &State{eng: e, res: res, heap: &Heap{m: map[string]string{}, sorts: map[string]Sort{}}, cellVals: map[*Cell]Value{}, entryVars: map[string]Value{}}
	st.allocTop = st.fresh("top0", SInt)
	st.allocTop0 = st.allocTop
	st.assume(app(">", st.allocTop, "0"))
	fr := st.newFrame(fn, c)
	st.frames = []*Frame{fr}
	// parameters
	for i, p := range fn.Params {
		v := st.freshValue("p_"+p.Name(), p.Type())
		fr.regs[p] = v
		fr.params = append(fr.params, v)
		st.entryVars[p.Name()] = v
		if i == 0 && fn.Signature.Recv() != nil {
			if _, ok := p.Type().Underlying().(*types.Pointer); ok {
				st.assume(not(eq(v.Term, nilRef)))
			}
		}
	}
	// free variables (closures verified on their own)
	for _, fv := range fn.FreeVars {
		pt := fv.Type().(*types.Pointer)
		cell := &Cell{Name: fv.Name(), T: pt.Elem(), ID: len(st.cellVals)}
		var content Value
		if self := e.closureOfFreeVar(fn, fv); self != nil {
			content = Value{T: pt.Elem(), S: SRef, Fn: self}
			// bindings of the self closure are its own free variables (filled below)
		} else {
			content = st.freshValue("fv_"+fv.Name(), pt.Elem())
			st.entryVars[fv.Name()] = content
		}
		st.cellVals[cell] = content
		fr.fvCells[fv] = Value{T: fv.Type(), S: SRef, Loc: &Loc{Cell: cell}}
	}
	// self closures get the same bindings as this activation
	for _, fv := range fn.FreeVars {
		l := fr.fvCells[fv].Loc
		cv := st.cellVals[l.Cell]
		if cv.Fn != nil {
			var binds []Value
			for _, fv2 := range cv.Fn.FreeVars {
				// match by name with our own free variables
				var found *Value
				for _, fv3 := range fn.FreeVars {
					if fv3.Name() == fv2.Name() {
						b := fr.fvCells[fv3]
						found = &b
					}
				}
				if found == nil {
					// sibling closure capturing something we do not: fresh cell
					pt := fv2.Type().(*types.Pointer)
					cell := &Cell{Name: fv2.Name(), T: pt.Elem(), ID: len(st.cellVals)}
					st.cellVals[cell] = st.freshValue("fv_"+fv2.Name(), pt.Elem())
					b := Value{T: fv2.Type(), S: SRef, Loc: &Loc{Cell: cell}}
					found = &b
				}
				binds = append(binds, *found)
			}
			cv.Bind = binds
			st.cellVals[l.Cell] = cv
		}
	}
	st.oldHeap = st.heap.clone()
	// requires
	if c != nil {
		env := st.specEnv(fr, nil, true)
		for _, rq := range c.Requires {
			t := st.evalBool(rq.Expr, env, rq)
			st.assume(t)
		}
		for _, cp := range c.Captures {
			st.assume(st.evalBool(cp.Expr, env, cp))
			res.Assumed["what the captured variables of "+res.Key+" refer to is not modified between the closure's creation and its call ("+cp.Src+")"] = true
		}
		// function frame
		ms := &modSet{allocTop: st.allocTop0, what: "function"}
		for _, m := range c.Modifies {
			ms.entries = append(ms.entries, st.evalLocs(m, env)...)
		}
		st.modsets = append(st.modsets, ms)
		// measure
		if c.Decreases != nil {
			mv := st.evalSpec(c.Decreases.Expr, env)
			fr.loopMeasure[nil] = mv.Term
		}
	}
	st.oldHeap = st.heap.clone()
	// vacuity: the precondition must be satisfiable
	res.VCs = append(res.VCs, &VC{Name: "vacuity:requires", Func: res.Key, Kind: "vacuity", Goal: "true", ExpectSat: true,
		Decls: st.decls.slice(), Asserts: st.asserts.slice(), Note: "requires and type invariants are satisfiable"})
	wl := []*State{st}
	for len(wl) > 0 {
		s := wl[len(wl)-1]
		wl = wl[:len(wl)-1]
		forks := s.run()
		wl = append(wl, forks...)
		res.Paths++
		if res.Paths > e.MaxPaths {
			res.Errors = append(res.Errors, fmt.Sprintf("more than %d paths", e.MaxPaths))
			break
		}
	}
	if c != nil && len(res.Errors) == 0 {
		// every `at X assert` clause has to have produced an obligation on some path (the static
		// check above accepted `at Iface.Method assert` clauses that were then never looked up)
		for _, name := range sortedKeys(c.AtAsserts) {
			if !c.atUsed[name] {
				res.Errors = append(res.Errors, fmt.Sprintf("contract has `at %s assert` but no path of %s produced an obligation for it", name, fnKey(fn)))
			}
		}
	}
	return res
}

var os_debug = false

// closureOfFreeVar: if free variable fv of fn is bound to a parent variable
// that holds (exactly one) closure, return that closure's function.
func (e *Engine) closureOfFreeVar(fn *ssa.Function, fv *ssa.FreeVar) *ssa.Function {
	parent := fn.Parent()
	if parent == nil {
		return nil
	}
	idx := -1
	for i, f := range fn.FreeVars {
		if f == fv {
			idx = i
		}
	}
	var bound ssa.Value
	for _, b := range parent.Blocks {
		for _, ins := range b.Instrs {
			if mc, ok := ins.(*ssa.MakeClosure); ok && mc.Fn == fn && idx < len(mc.Bindings) {
				bound = mc.Bindings[idx]
			}
		}
	}
	al, ok := bound.(*ssa.Alloc)
	if !ok {
		return nil
	}
	var found *ssa.Function
	n := 0
	for _, r := range *al.Referrers() {
		if s, ok := r.(*ssa.Store); ok && s.Addr == al {
			n++
			val := s.Val
			if ct, ok := val.(*ssa.ChangeType); ok {
				val = ct.X
			}
			if mc, ok := val.(*ssa.MakeClosure); ok {
				found = mc.Fn.(*ssa.Function)
			}
		}
	}
	if n == 1 {
		return found
	}
	return nil
}
