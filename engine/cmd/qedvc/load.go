package main

// Loader: go/packages over /repo's working tree (tag verif), with package
// rocksdb (cgo, not buildable here) replaced by an API skeleton generated
// mechanically from /repo/rocksdb/*.go on every run (stubgen).

import (
	"bytes"
	"encoding/json"
	"fmt"
	"go/ast"
	"go/format"
	"go/parser"
	"go/token"
	"os"
	"path/filepath"
	"sort"
	"strconv"
	"strings"

	"golang.org/x/tools/go/packages"
	"golang.org/x/tools/go/ssa"
	"golang.org/x/tools/go/ssa/ssautil"
)

const modPath = "github.com/bbva/qed"

var repoDir = "/repo"

func init() {
	if d := os.Getenv("QEDVC_REPO"); d != "" {
		repoDir = d
	}
}

// mentionsC reports whether the node mentions the pseudo-package C.
func mentionsC(n ast.Node) bool {
	if n == nil {
		return false
	}
	found := false
	ast.Inspect(n, func(x ast.Node) bool {
		if se, ok := x.(*ast.SelectorExpr); ok {
			if id, ok := se.X.(*ast.Ident); ok && id.Name == "C" {
				found = true
			}
		}
		return !found
	})
	return found
}

// droppedNames: functions/methods of package rocksdb whose signature mentions C
// (collected in a first pass over all files).
var droppedNames = map[string]bool{}

func mentionsAny(n ast.Node, names map[string]bool) bool {
	found := false
	ast.Inspect(n, func(x ast.Node) bool {
		switch id := x.(type) {
		case *ast.Ident:
			if names[id.Name] {
				found = true
			}
		case *ast.SelectorExpr:
			if names[id.Sel.Name] || names["."+id.Sel.Name] {
				found = true
			}
		}
		return !found
	})
	return found
}

func collectDropped(fset *token.FileSet, path string) {
	f, err := parser.ParseFile(fset, path, nil, 0)
	if err != nil {
		return
	}
	for _, d := range f.Decls {
		if fd, ok := d.(*ast.FuncDecl); ok {
			if mentionsC(fd.Type) || (fd.Recv != nil && mentionsC(fd.Recv)) {
				droppedNames[fd.Name.Name] = true
			}
		}
		// struct fields of C types are dropped too: code that touches them cannot be kept
		if gd, ok := d.(*ast.GenDecl); ok {
			for _, s := range gd.Specs {
				if ts, ok := s.(*ast.TypeSpec); ok {
					if st, ok := ts.Type.(*ast.StructType); ok {
						for _, fld := range st.Fields.List {
							if mentionsC(fld.Type) {
								for _, n := range fld.Names {
									droppedNames["."+n.Name] = true
								}
							}
						}
					}
				}
			}
		}
	}
}

// stubFile turns one real rocksdb source file into its skeleton. What is
// dropped is reported in `dropped`.
func stubFile(fset *token.FileSet, path string, keepCgo bool, dropped *[]string) ([]byte, error) {
	f, err := parser.ParseFile(fset, path, nil, parser.ParseComments)
	if err != nil {
		return nil, err
	}
	f.Comments = nil
	f.Doc = nil
	counter := 1000
	var decls []ast.Decl
	for _, d := range f.Decls {
		switch d := d.(type) {
		case *ast.FuncDecl:
			d.Doc = nil
			if mentionsC(d.Type) || (d.Recv != nil && mentionsC(d.Recv)) {
				*dropped = append(*dropped, filepath.Base(path)+": func "+d.Name.Name+" (signature mentions C)")
				continue
			}
			if d.Body != nil && !mentionsC(d.Body) && !mentionsAny(d.Body, droppedNames) {
				// pure Go body that needs nothing that was dropped: kept as it is
				// (package-level initialisers call some of these)
				decls = append(decls, d)
				continue
			}
			if d.Body != nil {
				d.Body = &ast.BlockStmt{List: []ast.Stmt{&ast.ExprStmt{X: &ast.CallExpr{
					Fun:  ast.NewIdent("panic"),
					Args: []ast.Expr{&ast.BasicLit{Kind: token.STRING, Value: `"rocksdb: skeleton"`}},
				}}}}
			}
			decls = append(decls, d)
		case *ast.GenDecl:
			d.Doc = nil
			if d.Tok == token.IMPORT {
				continue // rebuilt below
			}
			for _, s := range d.Specs {
				switch s := s.(type) {
				case *ast.TypeSpec:
					s.Doc, s.Comment = nil, nil
					if st, ok := s.Type.(*ast.StructType); ok {
						var fl []*ast.Field
						for _, fld := range st.Fields.List {
							fld.Doc, fld.Comment = nil, nil
							if mentionsC(fld.Type) {
								continue
							}
							fl = append(fl, fld)
						}
						st.Fields.List = fl
					} else if mentionsC(s.Type) {
						s.Type = ast.NewIdent("uintptr")
					}
				case *ast.ValueSpec:
					s.Doc, s.Comment = nil, nil
					if mentionsC(s.Type) {
						s.Type = nil
					}
					for i, v := range s.Values {
						if mentionsC(v) {
							s.Values[i] = replaceC(v, &counter)
						}
					}
				}
			}
			decls = append(decls, d)
		}
	}
	f.Decls = decls
	// recompute imports actually used
	used := map[string]bool{}
	ast.Inspect(f, func(x ast.Node) bool {
		if se, ok := x.(*ast.SelectorExpr); ok {
			if id, ok := se.X.(*ast.Ident); ok {
				used[id.Name] = true
			}
		}
		return true
	})
	var imps []ast.Spec
	for _, is := range f.Imports {
		p, _ := strconv.Unquote(is.Path.Value)
		if p == "C" {
			continue
		}
		name := filepath.Base(p)
		if is.Name != nil {
			name = is.Name.Name
		}
		if used[name] {
			is.Doc, is.Comment = nil, nil
			imps = append(imps, is)
		}
	}
	f.Imports = nil
	if len(imps) > 0 {
		f.Decls = append([]ast.Decl{&ast.GenDecl{Tok: token.IMPORT, Lparen: 1, Specs: imps, Rparen: 1}}, f.Decls...)
	}
	var buf bytes.Buffer
	if err := format.Node(&buf, token.NewFileSet(), f); err != nil {
		return nil, err
	}
	out := buf.Bytes()
	if keepCgo {
		// one file keeps a trivial cgo import so that the (blanked) C++ file is legal
		out = bytes.Replace(out, []byte("package rocksdb\n"), []byte("package rocksdb\n\n// #include <stdlib.h>\nimport \"C\"\n"), 1)
	}
	return out, nil
}

// replaceC replaces every C.xxx inside an expression by a distinct integer.
func replaceC(e ast.Expr, counter *int) ast.Expr {
	switch x := e.(type) {
	case *ast.SelectorExpr:
		if id, ok := x.X.(*ast.Ident); ok && id.Name == "C" {
			*counter++
			return &ast.BasicLit{Kind: token.INT, Value: strconv.Itoa(*counter)}
		}
		return x
	case *ast.CallExpr:
		x.Fun = replaceC(x.Fun, counter)
		for i := range x.Args {
			x.Args[i] = replaceC(x.Args[i], counter)
		}
		return x
	case *ast.ParenExpr:
		x.X = replaceC(x.X, counter)
		return x
	case *ast.BinaryExpr:
		x.X = replaceC(x.X, counter)
		x.Y = replaceC(x.Y, counter)
		return x
	case *ast.UnaryExpr:
		x.X = replaceC(x.X, counter)
		return x
	}
	return e
}

// Skeleton builds the overlay (path -> content) for package rocksdb.
func Skeleton() (map[string][]byte, []string, error) {
	dir := filepath.Join(repoDir, "rocksdb")
	ents, err := os.ReadDir(dir)
	if err != nil {
		return nil, nil, err
	}
	ov := map[string][]byte{}
	var dropped []string
	fset := token.NewFileSet()
	first := true
	var names []string
	for _, e := range ents {
		names = append(names, e.Name())
	}
	sort.Strings(names)
	droppedNames = map[string]bool{}
	for _, n := range names {
		if strings.HasSuffix(n, ".go") && !strings.HasSuffix(n, "_test.go") {
			collectDropped(fset, filepath.Join(dir, n))
		}
	}
	for _, n := range names {
		p := filepath.Join(dir, n)
		switch {
		case strings.HasSuffix(n, "_test.go"):
			ov[p] = []byte("package rocksdb\n")
		case strings.HasSuffix(n, ".go"):
			b, err := stubFile(fset, p, first, &dropped)
			if err != nil {
				return nil, nil, fmt.Errorf("stubgen %s: %v", n, err)
			}
			first = false
			ov[p] = b
		case strings.HasSuffix(n, ".cpp"), strings.HasSuffix(n, ".h"), strings.HasSuffix(n, ".c"), strings.HasSuffix(n, ".cc"):
			ov[p] = []byte("\n")
			dropped = append(dropped, n+" (blanked)")
		}
	}
	return ov, dropped, nil
}

// WriteOverlayJSON writes a `go build -overlay` file for the skeleton plus
// extra replacements; overlay contents are stored under dir.
func WriteOverlayJSON(dir string, ov map[string][]byte) (string, error) {
	if err := os.MkdirAll(dir, 0o755); err != nil {
		return "", err
	}
	repl := map[string]string{}
	i := 0
	keys := make([]string, 0, len(ov))
	for k := range ov {
		keys = append(keys, k)
	}
	sort.Strings(keys)
	for _, k := range keys {
		i++
		ext := filepath.Ext(k)
		dst := filepath.Join(dir, fmt.Sprintf("ov%03d_%s%s", i, strings.TrimSuffix(filepath.Base(k), ext), ext))
		if err := os.WriteFile(dst, ov[k], 0o644); err != nil {
			return "", err
		}
		repl[k] = dst
	}
	b, _ := json.MarshalIndent(map[string]interface{}{"Replace": repl}, "", " ")
	p := filepath.Join(dir, "overlay.json")
	return p, os.WriteFile(p, b, 0o644)
}

// Program is the loaded module.
type Program struct {
	Fset    *token.FileSet
	Pkgs    map[string]*packages.Package // by import path
	SSA     *ssa.Program
	SSAPkgs map[string]*ssa.Package
	Dropped []string // what the rocksdb skeleton dropped
	Overlay map[string][]byte
}

// Patterns of packages that are loaded from source as "initial".
var loadPatterns = []string{
	"./balloon/...", "./client", "./gossip", "./protocol", "./consensus",
	"./storage/...", "./api/...", "./server", "./cmd", "./crypto/...", "./util", "./log", "./rocksdb",
}

func Load(patterns []string) (*Program, error) {
	ov, dropped, err := Skeleton()
	if err != nil {
		return nil, err
	}
	cfg := &packages.Config{
		Mode: packages.NeedName | packages.NeedFiles | packages.NeedCompiledGoFiles | packages.NeedImports |
			packages.NeedDeps | packages.NeedTypes | packages.NeedSyntax | packages.NeedTypesInfo | packages.NeedTypesSizes,
		Dir:        repoDir,
		Overlay:    ov,
		BuildFlags: []string{"-tags=verif"},
		Env: append(os.Environ(), "GOFLAGS=-mod=mod", "GOPROXY=off", "GOSUMDB=off", "GOTOOLCHAIN=local",
			"CGO_ENABLED=1"),
		Tests: false,
	}
	if patterns == nil {
		patterns = loadPatterns
	}
	pkgs, err := packages.Load(cfg, patterns...)
	if err != nil {
		return nil, err
	}
	p := &Program{Pkgs: map[string]*packages.Package{}, SSAPkgs: map[string]*ssa.Package{}, Dropped: dropped, Overlay: ov}
	var errs []string
	for _, pk := range pkgs {
		p.Fset = pk.Fset
		p.Pkgs[pk.PkgPath] = pk
		for _, e := range pk.Errors {
			errs = append(errs, pk.PkgPath+": "+e.Error())
		}
	}
	if len(errs) > 0 {
		return p, fmt.Errorf("load errors:\n  %s", strings.Join(errs, "\n  "))
	}
	prog, spkgs := ssautil.Packages(pkgs, ssa.NaiveForm|ssa.InstantiateGenerics)
	for i, sp := range spkgs {
		if sp != nil {
			sp.Build()
			p.SSAPkgs[pkgs[i].PkgPath] = sp
		}
	}
	p.SSA = prog
	return p, nil
}
