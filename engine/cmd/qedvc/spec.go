package main

// Evaluation of specification expressions to SMT terms.

import (
	"fmt"
	"go/constant"
	"go/token"
	"go/types"
	"math/big"
	"sort"
	"strings"

	"golang.org/x/tools/go/ssa"
)

type specEnv struct {
	st      *State
	vars    map[string]Value
	frame   *Frame
	heap    *Heap
	old     *Heap
	oldVars map[string]Value
	result  []Value
	pkg     *types.Package
	topOld  string
	errs    *[]string
	where   string
	// unfolding instances of defined spec functions met while evaluating a clause
	// (flushed into the path condition, or kept under the quantifier that binds them)
	facts    *[]string
	noUnfold bool
	// names bound by an enclosing quantifier: they shadow locals of the same name
	bound map[string]int
}

type specErr string

func (env *specEnv) fail(f string, a ...interface{}) {
	panic(specErr(fmt.Sprintf(f, a...)))
}

// specEnv for the function being verified. entry: names denote entry values.
func (st *State) specEnv(f *Frame, results []Value, entry bool) *specEnv {
	env := &specEnv{st: st, vars: map[string]Value{}, heap: st.heap, old: st.oldHeap, result: results, topOld: st.allocTop0}
	root := st.frames[0]
	if f == root || f == nil {
		for k, v := range st.entryVars {
			env.vars[k] = v
		}
		if len(root.fn.Params) > 0 && root.fn.Signature.Recv() != nil {
			env.vars["self"] = root.params[0]
		}
	} else {
		for i, p := range f.fn.Params {
			if i < len(f.params) {
				env.vars[p.Name()] = f.params[i]
			}
		}
	}
	env.oldVars = env.vars
	if !entry {
		env.frame = f
	} else {
		// free variables by name (closures): current cell contents
		env.frame = nil
		// (old(x) of a captured variable is its content at entry)
		ov := map[string]Value{}
		for k, v := range env.vars {
			ov[k] = v
		}
		env.oldVars = ov
		for fv, l := range f.fvCells {
			if l.Loc != nil {
				env.vars[fv.Name()] = st.readLoc(l.Loc)
			}
		}
	}
	if f != nil && f.fn.Pkg != nil {
		env.pkg = f.fn.Pkg.Pkg
	} else if f != nil && f.fn.Parent() != nil {
		p := f.fn
		for p.Parent() != nil {
			p = p.Parent()
		}
		if p.Pkg != nil {
			env.pkg = p.Pkg.Pkg
		}
	}
	return env
}

// specLoad reads the heap for a specification expression. References found in a heap
// that came into being at some point (entry, or a havoc) point to objects that existed
// then: that fact accompanies the read (it keeps later allocations from aliasing them).
func (st *State) specLoad(env *specEnv, addr string, T types.Type) Value {
	v := st.loadH(env.heap, addr, T)
	if env.facts != nil {
		if f := st.baseAgeFact(v.Term, v.S, true); f != "" {
			*env.facts = append(*env.facts, f)
		}
	}
	return v
}

// quantTerm builds a quantified formula. A universal quantifier directly over another one
// is merged into one binder, and the solver is given a trigger when the body applies a
// specification function to all bound variables (otherwise it picks its own, which for
// byte-string terms such as cat(be64(i), be16(h)) means one instance per PAIR of terms).
func (st *State) quantTerm(op, name, sort, body string) string {
	vars := [][2]string{{name, sort}}
	if op == "forall" && strings.HasPrefix(body, "(forall ((q_") {
		// (forall ((a A) (b B)) X): take its binders over
		if parts := splitTop(body[1 : len(body)-1]); len(parts) == 3 && len(parts[1]) > 2 {
			ok := true
			var more [][2]string
			for _, b := range splitTop(parts[1][1 : len(parts[1])-1]) {
				p := splitTop(b[1 : len(b)-1])
				if len(p) != 2 {
					ok = false
					break
				}
				more = append(more, [2]string{p[0], p[1]})
			}
			if ok && !strings.HasPrefix(parts[2], "(! ") {
				vars = append(vars, more...)
				body = parts[2]
			}
		}
	}
	var bl []string
	for _, v := range vars {
		bl = append(bl, "("+v[0]+" "+v[1]+")")
	}
	if op == "forall" && len(vars) >= 2 {
		heads := map[string]bool{}
		for n := range st.eng.cs.Specs {
			heads[n] = true
		}
		apps := map[string][]string{}
		collectApps(body, heads, apps)
		best := ""
		for t := range apps {
			all := true
			for _, v := range vars {
				if !strings.Contains(t, v[0]) {
					all = false
				}
			}
			if all && (best == "" || len(t) < len(best) || (len(t) == len(best) && t < best)) {
				best = t
			}
		}
		if best != "" {
			return fmt.Sprintf("(forall (%s) (! %s :pattern (%s)))", strings.Join(bl, " "), body, best)
		}
	}
	return fmt.Sprintf("(%s (%s) %s)", op, strings.Join(bl, " "), body)
}

func (st *State) withAgeFact(env *specEnv, v Value) Value {
	if env.facts != nil {
		if f := st.baseAgeFact(v.Term, v.S, true); f != "" {
			*env.facts = append(*env.facts, f)
		}
	}
	return v
}

func (st *State) evalBool(e *SExpr, env *specEnv, c *Clause) string {
	v := st.evalSpecSafe(e, env, c)
	if v.S != SBool {
		st.res.Errors = append(st.res.Errors, fmt.Sprintf("spec %s:%d: not boolean: %s", c.File, c.Line, c.Src))
		return "true"
	}
	return v.Term
}

func (st *State) evalSpecSafe(e *SExpr, env *specEnv, c *Clause) (v Value) {
	defer func() {
		if r := recover(); r != nil {
			if se, ok := r.(specErr); ok {
				where := ""
				if c != nil {
					where = fmt.Sprintf("%s:%d: ", c.File, c.Line)
				}
				st.res.Errors = append(st.res.Errors, "spec "+where+string(se))
				v = Value{S: SBool, Term: "true"}
				return
			}
			panic(r)
		}
	}()
	if env.facts == nil {
		var facts []string
		env.facts = &facts
		defer func() {
			// definitional instances met in this clause become part of the path condition
			for _, f := range facts {
				st.assume(f)
			}
			env.facts = nil
		}()
	}
	return st.evalSpec(e, env)
}

func (st *State) evalSpec(e *SExpr, env *specEnv) Value {
	te := st.eng.te
	switch e.Kind {
	case KInt:
		bi, ok := new(big.Int).SetString(e.Name, 0)
		if !ok {
			env.fail("bad integer %q", e.Name)
		}
		return Value{Untyped: bi}
	case KStr:
		return Value{T: types.Typ[types.String], S: SStr, Term: st.eng.pre.StrLit(e.Name)}
	case KChar:
		return Value{Untyped: big.NewInt(int64(e.Name[0]))}
	case KIdent:
		return st.specIdent(e.Name, env)
	case KUnary:
		if e.Op == "&" {
			a, T := st.evalAddr(e.Args[0], env)
			return Value{T: types.NewPointer(T), S: SRef, Term: a}
		}
		x := st.evalSpec(e.Args[0], env)
		switch e.Op {
		case "!":
			return Value{T: types.Typ[types.Bool], S: SBool, Term: not(x.Term)}
		case "-":
			if x.Untyped != nil {
				return Value{Untyped: new(big.Int).Neg(x.Untyped)}
			}
			if x.S.IsBV() {
				return Value{T: x.T, S: x.S, Term: app("bvneg", x.Term)}
			}
			return Value{S: SInt, Term: app("-", x.Term)}
		case "^":
			return Value{T: x.T, S: x.S, Term: app("bvnot", x.Term)}
		case "*":
			pt, ok := x.T.Underlying().(*types.Pointer)
			if !ok {
				env.fail("* of non-pointer %s", e.Args[0])
			}
			if x.Loc != nil {
				return st.readLoc(x.Loc)
			}
			return st.loadH(env.heap, x.Term, pt.Elem())
		}
	case KBinary:
		return st.specBinary(e, env)
	case KSel:
		// package-qualified name?
		if id := e.Args[0]; id.Kind == KIdent && env.pkg != nil {
			if _, isVar := env.vars[id.Name]; !isVar {
				for _, imp := range env.pkg.Imports() {
					if imp.Name() == id.Name {
						return st.specPkgMember(imp, e.Name, env)
					}
				}
			}
		}
		x := st.evalSpec(e.Args[0], env)
		return st.specField(x, e.Name, env)
	case KIndex:
		x := st.evalSpec(e.Args[0], env)
		i := st.evalSpec(e.Args[1], env)
		return st.specIndex(x, i, env)
	case KSlice:
		x := st.evalSpec(e.Args[0], env)
		lo := bvInt(0, 64)
		if e.Args[1] != nil {
			lo = st.coerceTo(st.evalSpec(e.Args[1], env), BV(64), env).Term
		}
		if x.S == SSlice {
			hi := app("s_len", x.Term)
			if e.Args[2] != nil {
				hi = st.coerceTo(st.evalSpec(e.Args[2], env), BV(64), env).Term
			}
			return Value{T: x.T, S: SSlice, Term: app("mk_slice", app("s_ref", x.Term), app("bvadd", app("s_off", x.Term), lo), app("bvsub", hi, lo), app("bvsub", app("s_cap", x.Term), lo))}
		}
		env.fail("slice expression on %s", x.S)
	case KCall:
		return st.specCall(e, env)
	case KQuant:
		T, s := st.resolveSpecType(e.Type, env)
		name := "q_" + e.Name
		saved, had := env.vars[e.Name]
		env.vars[e.Name] = Value{T: T, S: s, Term: name}
		if env.bound == nil {
			env.bound = map[string]int{}
		}
		env.bound[e.Name]++
		defer func() { env.bound[e.Name]-- }()
		// (a bound variable means the same inside old(...))
		var savedO Value
		hadO, sameMap := false, false
		if env.oldVars != nil {
			env.oldVars["\x00probe"] = Value{}
			_, sameMap = env.vars["\x00probe"]
			delete(env.oldVars, "\x00probe")
			if !sameMap {
				savedO, hadO = env.oldVars[e.Name]
				env.oldVars[e.Name] = Value{T: T, S: s, Term: name}
			}
		}
		nFacts := 0
		if env.facts != nil {
			nFacts = len(*env.facts)
		}
		body := st.evalSpec(e.Args[0], env)
		if env.facts != nil && len(*env.facts) > nFacts && body.S == SBool {
			// definitional instances that mention the bound variable hold for every value of
			// it: they leave the binder universally quantified (and stay facts of the clause)
			var keep []string
			keep = append(keep, (*env.facts)[:nFacts]...)
			for _, f := range (*env.facts)[nFacts:] {
				if strings.Contains(f, name) {
					if strings.Contains(f, "(rid "+name+")") {
						// an age fact about a read FROM the bound object itself: quantified, its
						// trigger (rid of the bound variable) would match its own instances: left out
						continue
					}
					if recursesOnBound(f, name) {
						// an unfolding that recurses on the bound variable would be a self-matching
						// quantified axiom (instantiation loop): the instance is left out
						continue
					}
					keep = append(keep, fmt.Sprintf("(forall ((%s %s)) %s)", name, s, f))
				} else {
					keep = append(keep, f)
				}
			}
			*env.facts = keep
		}
		if had {
			env.vars[e.Name] = saved
		} else {
			delete(env.vars, e.Name)
		}
		if env.oldVars != nil && !sameMap {
			if hadO {
				env.oldVars[e.Name] = savedO
			} else {
				delete(env.oldVars, e.Name)
			}
		}
		if body.S != SBool {
			env.fail("quantifier body not boolean")
		}
		return Value{T: types.Typ[types.Bool], S: SBool, Term: st.quantTerm(e.Op, name, string(s), body.Term)}
	}
	env.fail("cannot evaluate %s", e)
	_ = te
	return Value{}
}

func (st *State) specIdent(name string, env *specEnv) Value {
	te := st.eng.te
	switch name {
	case "true", "false":
		return Value{T: types.Typ[types.Bool], S: SBool, Term: name}
	case "nil":
		return Value{S: "nil", Term: "nil"}
	case "result":
		if len(env.result) == 0 && env.frame != nil {
			// inside an invariant there is no function result: a local variable may be called "result"
			if v, ok := st.localByName(env.frame, name, env); ok {
				return v
			}
		}
		if len(env.result) == 1 {
			return env.result[0]
		}
		if len(env.result) == 0 {
			env.fail("result used but function returns nothing (or not in a postcondition)")
		}
		return Value{S: "Tuple", Tuple: env.result}
	case "bempty":
		return Value{S: SBytes, Term: "bempty"}
	}
	if strings.HasPrefix(name, "result_") {
		var i int
		fmt.Sscanf(name, "result_%d", &i)
		if i < len(env.result) {
			return env.result[i]
		}
		env.fail("%s out of range", name)
	}
	// a variable bound by an enclosing quantifier shadows everything else of that name
	if env.bound[name] > 0 {
		if v, ok := env.vars[name]; ok {
			return v
		}
	}
	// locals first when evaluating loop invariants
	if env.frame != nil {
		if v, ok := st.localByName(env.frame, name, env); ok {
			return v
		}
	}
	if v, ok := env.vars[name]; ok {
		return v
	}
	if g, ok := st.eng.cs.Ghosts[name]; ok {
		T, s := st.ghostType(g)
		return Value{S: s, Term: st.heapGet(env.heap, "ghost_"+name, s), T: T}
	}
	if env.pkg != nil {
		return st.specPkgMember(env.pkg, name, env)
	}
	env.fail("unknown identifier %q", name)
	_ = te
	return Value{}
}

// localByName: current value of the local variable (or captured variable) called name.
func (st *State) localByName(f *Frame, name string, env *specEnv) (Value, bool) {
	var best *ssa.Alloc
	for _, al := range f.cellOrder {
		if al.Comment == name {
			best = al
		}
	}
	if best != nil {
		return st.cellVals[f.cells[best]], true
	}
	for fv, l := range f.fvCells {
		if fv.Name() == name && l.Loc != nil {
			return st.readLoc(l.Loc), true
		}
	}
	// non-cellable allocs (heap objects) by name
	for v, r := range f.regs {
		if al, ok := v.(*ssa.Alloc); ok && al.Comment == name && r.Term != "" {
			return st.loadH(env.heap, r.Term, al.Type().(*types.Pointer).Elem()), true
		}
	}
	return Value{}, false
}

// ghostType resolves a ghost variable's declared type in the package it was declared in.
func (st *State) ghostType(g *GhostVar) (types.Type, Sort) {
	env := &specEnv{st: st}
	if sp := st.eng.ssaPkg(g.Pkg); sp != nil {
		env.pkg = sp.Pkg
	}
	return st.resolveSpecType(g.Type, env)
}

func (st *State) specPkgMember(pkg *types.Package, name string, env *specEnv) Value {
	te := st.eng.te
	obj := pkg.Scope().Lookup(name)
	switch o := obj.(type) {
	case *types.Const:
		T := o.Type()
		s := te.SortOf(T)
		if b, ok := T.Underlying().(*types.Basic); ok && b.Info()&types.IsUntyped != 0 {
			if o.Val().Kind() == constant.Int {
				bi, _ := new(big.Int).SetString(o.Val().ExactString(), 10)
				return Value{Untyped: bi}
			}
		}
		switch o.Val().Kind() {
		case constant.Int:
			bi, _ := new(big.Int).SetString(o.Val().ExactString(), 10)
			if s.IsBV() {
				return Value{T: T, S: s, Term: bvLit(bi, s.Bits())}
			}
		case constant.String:
			return Value{T: T, S: SStr, Term: st.eng.pre.StrLit(constant.StringVal(o.Val()))}
		case constant.Bool:
			return Value{T: T, S: SBool, Term: fmt.Sprint(constant.BoolVal(o.Val()))}
		}
	case *types.Var:
		sp := st.eng.ssaPkg(pkg.Path())
		if sp != nil {
			if g, ok := sp.Members[name].(*ssa.Global); ok {
				T := o.Type()
				s := te.SortOf(T)
				if st.eng.constGlobal[g] {
					n := "gconst_" + mangleType(types.NewPointer(g.Type())) + "_" + g.Pkg.Pkg.Name() + "_" + g.Name()
					st.declareOnce(n, s)
					return Value{T: T, S: s, Term: n}
				}
				return st.loadH(env.heap, st.globalAddr(g), T)
			}
		}
	}
	env.fail("unknown identifier %q in package %s", name, pkg.Path())
	return Value{}
}

func (st *State) specField(x Value, name string, env *specEnv) Value {
	te := st.eng.te
	if x.T == nil {
		env.fail("field %s of untyped value", name)
	}
	if x.S == SSlice {
		switch name {
		case "len":
			return Value{T: types.Typ[types.Int], S: BV(64), Term: app("s_len", x.Term)}
		}
	}
	obj, path, _ := types.LookupFieldOrMethod(x.T, true, env.pkg, name)
	fv, ok := obj.(*types.Var)
	if !ok {
		// try regardless of package visibility
		if n := namedOf(x.T); n != nil && n.Obj().Pkg() != nil {
			obj, path, _ = types.LookupFieldOrMethod(x.T, true, n.Obj().Pkg(), name)
			fv, ok = obj.(*types.Var)
		}
		if !ok {
			env.fail("no field %s in %s", name, typeStr(x.T))
		}
	}
	_ = fv
	cur := x
	for _, idx := range path {
		T := cur.T
		if pt, ok := T.Underlying().(*types.Pointer); ok {
			stt, ok := pt.Elem().Underlying().(*types.Struct)
			if !ok {
				env.fail("field of pointer to non-struct")
			}
			ft := stt.Field(idx).Type()
			if cur.Loc != nil {
				l := &Loc{Cell: cur.Loc.Cell, Path: append(append([]step(nil), cur.Loc.Path...), step{field: idx, T: ft})}
				cur = st.readLoc(l)
			} else {
				cur = st.specLoad(env, st.eng.fsub(cur.Term, pt.Elem(), idx), ft)
			}
			continue
		}
		stt, ok := T.Underlying().(*types.Struct)
		if !ok {
			env.fail("field of non-struct %s", typeStr(T))
		}
		ft := stt.Field(idx).Type()
		cur = Value{T: ft, S: te.SortOf(ft), Term: te.StructGet(cur.S, idx, cur.Term)}
	}
	return cur
}

func namedOf(t types.Type) *types.Named {
	if p, ok := t.(*types.Pointer); ok {
		t = p.Elem()
	}
	n, _ := t.(*types.Named)
	return n
}

// evalAddr: address of an lvalue expression (x.f, *p, s[i]).
func (st *State) evalAddr(e *SExpr, env *specEnv) (string, types.Type) {
	switch e.Kind {
	case KSel:
		x := st.evalSpec(e.Args[0], env)
		if x.T == nil {
			env.fail("address of field of untyped value")
		}
		var pkg *types.Package = env.pkg
		if n := namedOf(x.T); n != nil && n.Obj().Pkg() != nil {
			pkg = n.Obj().Pkg()
		}
		obj, path, _ := types.LookupFieldOrMethod(x.T, true, pkg, e.Name)
		if _, ok := obj.(*types.Var); !ok {
			env.fail("no field %s in %s", e.Name, typeStr(x.T))
		}
		var addr string
		var T types.Type
		if pt, ok := x.T.Underlying().(*types.Pointer); ok {
			addr, T = x.Term, pt.Elem()
		} else if _, isStruct := x.T.Underlying().(*types.Struct); isStruct {
			// a struct that is itself a location (an escaping local, a field): its address
			addr, T = st.evalAddr(e.Args[0], env)
		} else {
			env.fail("location %s: base is not a pointer", e)
		}
		for i, idx := range path {
			stt := T.Underlying().(*types.Struct)
			ft := stt.Field(idx).Type()
			addr = st.eng.fsub(addr, T, idx)
			T = ft
			if i < len(path)-1 {
				if p2, ok := T.Underlying().(*types.Pointer); ok {
					// embedded pointer: load it
					addr = st.loadH(env.heap, addr, T).Term
					T = p2.Elem()
				}
			}
		}
		return addr, T
	case KUnary:
		if e.Op == "*" {
			x := st.evalSpec(e.Args[0], env)
			pt, ok := x.T.Underlying().(*types.Pointer)
			if !ok {
				env.fail("* of non-pointer")
			}
			return x.Term, pt.Elem()
		}
	case KIndex:
		x := st.evalSpec(e.Args[0], env)
		i := st.coerceTo(st.evalSpec(e.Args[1], env), BV(64), env)
		if sl, ok := x.T.Underlying().(*types.Slice); ok {
			return elemAddr(app("s_ref", x.Term), app("bvadd", app("s_off", x.Term), i.Term)), sl.Elem()
		}
	case KIdent:
		// a local variable that lives in the heap (its address escapes)
		if env.frame != nil {
			for v, r := range env.frame.regs {
				if al, ok := v.(*ssa.Alloc); ok && al.Comment == e.Name && r.Term != "" {
					return r.Term, al.Type().(*types.Pointer).Elem()
				}
			}
		}
	}
	env.fail("not a location: %s", e)
	return "", nil
}

func (st *State) specIndex(x, i Value, env *specEnv) Value {
	te := st.eng.te
	if x.T == nil {
		if strings.HasPrefix(string(x.S), "(Array ") {
			// spec-level array
			parts := splitTop(string(x.S)[7 : len(x.S)-1])
			ii := st.coerceTo(i, Sort(parts[0]), env)
			return Value{S: Sort(parts[1]), Term: app("select", x.Term, ii.Term)}
		}
		env.fail("index of untyped value")
	}
	switch u := x.T.Underlying().(type) {
	case *types.Slice:
		ii := st.coerceTo(st.widenIndex(i), BV(64), env)
		es := te.SortOf(u.Elem())
		if _, isStruct := u.Elem().Underlying().(*types.Struct); isStruct {
			return st.specLoad(env, elemAddr(app("s_ref", x.Term), app("bvadd", app("s_off", x.Term), ii.Term)), u.Elem())
		}
		arr := st.elemsArr(env.heap, es)
		return st.withAgeFact(env, Value{T: u.Elem(), S: es, Term: app("select", app("select", arr, app("s_ref", x.Term)), app("bvadd", app("s_off", x.Term), ii.Term))})
	case *types.Array:
		ii := st.coerceTo(st.widenIndex(i), BV(64), env)
		return Value{T: u.Elem(), S: te.SortOf(u.Elem()), Term: app("select", x.Term, ii.Term)}
	case *types.Map:
		k := st.coerceTo(i, te.SortOf(u.Key()), env)
		_, v := st.mapLookupH(env.heap, x, u, k.Term)
		return st.withAgeFact(env, v)
	case *types.Basic:
		ii := st.coerceTo(st.widenIndex(i), BV(64), env)
		return Value{T: types.Typ[types.Byte], S: BV(8), Term: app("str_at", x.Term, ii.Term)}
	case *types.Pointer:
		if at, ok := u.Elem().Underlying().(*types.Array); ok {
			ii := st.coerceTo(st.widenIndex(i), BV(64), env)
			es := te.SortOf(at.Elem())
			return Value{T: at.Elem(), S: es, Term: app("select", app("select", st.elemsArr(env.heap, es), x.Term), ii.Term)}
		}
	}
	env.fail("cannot index %s", typeStr(x.T))
	return Value{}
}

// widenIndex: an index of a narrower integer type is extended to 64 bits (as Go does).
func (st *State) widenIndex(i Value) Value {
	if i.Untyped != nil || !i.S.IsBV() || i.S.Bits() == 64 {
		return i
	}
	T := i.T
	if T == nil {
		T = types.Typ[types.Uint32]
	}
	return Value{T: types.Typ[types.Int], S: BV(64), Term: st.toInt64(Value{T: T, S: i.S, Term: i.Term}, T)}
}

// coerceTo adapts untyped constants and nil to a sort.
func (st *State) coerceTo(v Value, s Sort, env *specEnv) Value {
	if v.Untyped != nil {
		switch {
		case s.IsBV():
			return Value{S: s, Term: bvLit(v.Untyped, s.Bits())}
		case s == SInt:
			if v.Untyped.Sign() < 0 {
				return Value{S: SInt, Term: "(- " + new(big.Int).Neg(v.Untyped).String() + ")"}
			}
			return Value{S: SInt, Term: v.Untyped.String()}
		}
		env.fail("integer constant used as %s", s)
	}
	if v.S == "nil" {
		switch s {
		case SRef:
			return Value{S: SRef, Term: nilRef}
		case SSlice:
			return Value{S: SSlice, Term: nilSlice}
		case SIface:
			return Value{S: SIface, Term: nilIface}
		}
		env.fail("nil used as %s", s)
	}
	if v.S != s {
		env.fail("sort mismatch: %s vs %s (%s)", v.S, s, v.Term)
	}
	return v
}

func (st *State) specBinary(e *SExpr, env *specEnv) Value {
	boolT := types.Typ[types.Bool]
	switch e.Op {
	case "==>":
		a := st.evalSpec(e.Args[0], env)
		b := st.evalSpec(e.Args[1], env)
		return Value{T: boolT, S: SBool, Term: imp(a.Term, b.Term)}
	case "<==>":
		a := st.evalSpec(e.Args[0], env)
		b := st.evalSpec(e.Args[1], env)
		return Value{T: boolT, S: SBool, Term: eq(a.Term, b.Term)}
	case "&&":
		a := st.evalSpec(e.Args[0], env)
		b := st.evalSpec(e.Args[1], env)
		return Value{T: boolT, S: SBool, Term: and(a.Term, b.Term)}
	case "||":
		a := st.evalSpec(e.Args[0], env)
		b := st.evalSpec(e.Args[1], env)
		return Value{T: boolT, S: SBool, Term: or(a.Term, b.Term)}
	}
	a := st.evalSpec(e.Args[0], env)
	b := st.evalSpec(e.Args[1], env)
	// untyped arithmetic
	if a.Untyped != nil && b.Untyped != nil {
		r := new(big.Int)
		switch e.Op {
		case "+":
			return Value{Untyped: r.Add(a.Untyped, b.Untyped)}
		case "-":
			return Value{Untyped: r.Sub(a.Untyped, b.Untyped)}
		case "*":
			return Value{Untyped: r.Mul(a.Untyped, b.Untyped)}
		case "<<":
			return Value{Untyped: r.Lsh(a.Untyped, uint(b.Untyped.Int64()))}
		case "/":
			return Value{Untyped: r.Quo(a.Untyped, b.Untyped)}
		}
	}
	// shifts: count may have another width
	if e.Op == "<<" || e.Op == ">>" {
		if a.Untyped != nil {
			env.fail("shift of untyped constant by a variable amount: convert the constant first")
		}
		if b.Untyped != nil {
			b = st.coerceTo(b, a.S, env)
		}
		op := token.SHL
		if e.Op == ">>" {
			op = token.SHR
		}
		bt := b.T
		if bt == nil {
			bt = types.Typ[types.Uint64]
			b.T = bt
		}
		if a.T == nil {
			a.T = types.Typ[types.Uint64]
		}
		saved := st.asserts
		v := st.binopPure(op, a, b)
		_ = saved
		return v
	}
	if a.Untyped != nil || a.S == "nil" {
		a = st.coerceTo(a, b.S, env)
		a.T = b.T
	}
	if b.Untyped != nil || b.S == "nil" {
		b = st.coerceTo(b, a.S, env)
		b.T = a.T
	}
	if a.S != b.S {
		env.fail("operands of %s have different sorts: %s (%s) vs %s (%s)", e.Op, a.S, e.Args[0], b.S, e.Args[1])
	}
	switch e.Op {
	case "==":
		// on slices == means "the identical slice" (same backing array, offset, length, capacity)
		return Value{T: boolT, S: SBool, Term: eq(a.Term, b.Term)}
	case "!=":
		return Value{T: boolT, S: SBool, Term: not(eq(a.Term, b.Term))}
	}
	if a.S == SInt {
		switch e.Op {
		case "+", "-", "*":
			return Value{S: SInt, Term: app(e.Op, a.Term, b.Term)}
		case "<", "<=", ">", ">=":
			return Value{T: boolT, S: SBool, Term: app(e.Op, a.Term, b.Term)}
		}
	}
	if a.S.IsBV() {
		T := a.T
		if T == nil {
			T = b.T
		}
		signed := T != nil && isSigned(T)
		mk := func(t string) Value { return Value{T: T, S: a.S, Term: t} }
		switch e.Op {
		case "+":
			return mk(app("bvadd", a.Term, b.Term))
		case "-":
			return mk(app("bvsub", a.Term, b.Term))
		case "*":
			return mk(app("bvmul", a.Term, b.Term))
		case "/":
			if signed {
				return mk(app("bvsdiv", a.Term, b.Term))
			}
			return mk(app("bvudiv", a.Term, b.Term))
		case "%":
			if signed {
				return mk(app("bvsrem", a.Term, b.Term))
			}
			return mk(app("bvurem", a.Term, b.Term))
		case "&":
			return mk(app("bvand", a.Term, b.Term))
		case "|":
			return mk(app("bvor", a.Term, b.Term))
		case "^":
			return mk(app("bvxor", a.Term, b.Term))
		case "&^":
			return mk(app("bvand", a.Term, app("bvnot", b.Term)))
		case "<", "<=", ">", ">=":
			o := map[string]string{"<": "lt", "<=": "le", ">": "gt", ">=": "ge"}[e.Op]
			if signed {
				o = "bvs" + o
			} else {
				o = "bvu" + o
			}
			return Value{T: boolT, S: SBool, Term: app(o, a.Term, b.Term)}
		}
	}
	if a.S == SStr && e.Op == "+" {
		return Value{T: a.T, S: SStr, Term: app("str_cat", a.Term, b.Term)}
	}
	env.fail("operator %s not supported on %s", e.Op, a.S)
	return Value{}
}

// binopPure: shift semantics without panic obligations (specs).
func (st *State) binopPure(op token.Token, a, b Value) Value {
	bits := a.S.Bits()
	cb := b.S.Bits()
	var c2 string
	switch {
	case cb == bits:
		c2 = b.Term
	case cb < bits:
		c2 = app(fmt.Sprintf("(_ zero_extend %d)", bits-cb), b.Term)
	default:
		big := app("bvuge", b.Term, bvInt(int64(bits), cb))
		c2 = ite(big, bvInt(int64(bits), bits), app(fmt.Sprintf("(_ extract %d 0)", bits-1), b.Term))
	}
	o := "bvshl"
	if op == token.SHR {
		o = "bvlshr"
		if isSigned(a.T) {
			o = "bvashr"
		}
	}
	return Value{T: a.T, S: a.S, Term: app(o, a.Term, c2)}
}

// resolveSpecType: Go type names plus the spec sorts Int, Bytes, Ref.
func (st *State) resolveSpecType(name string, env *specEnv) (types.Type, Sort) {
	te := st.eng.te
	switch name {
	case "Int":
		return nil, SInt
	case "Bytes":
		return nil, SBytes
	case "Ref":
		return nil, SRef
	case "Iface":
		return nil, SIface
	case "Str":
		return nil, SStr
	case "Bool":
		return types.Typ[types.Bool], SBool
	}
	if strings.HasPrefix(name, "[") && !strings.HasPrefix(name, "[]") {
		// an array type [N]T
		if j := strings.Index(name, "]"); j > 1 {
			var n int64
			if _, err := fmt.Sscanf(name[1:j], "%d", &n); err == nil {
				T, _ := st.resolveSpecType(name[j+1:], env)
				if T == nil {
					env.fail("bad element type in %s", name)
				}
				at := types.NewArray(T, n)
				return at, te.SortOf(at)
			}
		}
	}
	if strings.HasPrefix(name, "[]") {
		T, _ := st.resolveSpecType(name[2:], env)
		if T == nil {
			env.fail("bad element type in %s", name)
		}
		sl := types.NewSlice(T)
		return sl, SSlice
	}
	if strings.HasPrefix(name, "*") {
		T, _ := st.resolveSpecType(name[1:], env)
		if T == nil {
			env.fail("bad pointer type %s", name)
		}
		return types.NewPointer(T), SRef
	}
	if obj := types.Universe.Lookup(name); obj != nil {
		if tn, ok := obj.(*types.TypeName); ok {
			return tn.Type(), te.SortOf(tn.Type())
		}
	}
	if i := strings.LastIndex(name, "."); i >= 0 && env.pkg != nil {
		pn, tn := name[:i], name[i+1:]
		for _, imp := range env.pkg.Imports() {
			if imp.Name() == pn || imp.Path() == pn {
				if o, ok := imp.Scope().Lookup(tn).(*types.TypeName); ok {
					return o.Type(), te.SortOf(o.Type())
				}
			}
		}
		if sp := st.eng.ssaPkg(pn); sp != nil {
			if o, ok := sp.Pkg.Scope().Lookup(tn).(*types.TypeName); ok {
				return o.Type(), te.SortOf(o.Type())
			}
		}
		// a module package referred to by its name (trusted specs cannot import)
		for path, pk := range st.eng.prog.Pkgs {
			if strings.HasPrefix(path, modPath) && pk.Types != nil && pk.Types.Name() == pn {
				if o, ok := pk.Types.Scope().Lookup(tn).(*types.TypeName); ok {
					return o.Type(), te.SortOf(o.Type())
				}
			}
		}
		// any other package of the program, by name (sorted for determinism)
		var cands []string
		for _, sp := range st.eng.prog.SSA.AllPackages() {
			if sp.Pkg != nil && sp.Pkg.Name() == pn {
				if _, ok := sp.Pkg.Scope().Lookup(tn).(*types.TypeName); ok {
					cands = append(cands, sp.Pkg.Path())
				}
			}
		}
		if len(cands) > 0 {
			sort.Strings(cands)
			if sp := st.eng.prog.SSA.ImportedPackage(cands[0]); sp != nil {
				o := sp.Pkg.Scope().Lookup(tn).(*types.TypeName)
				return o.Type(), te.SortOf(o.Type())
			}
		}
	}
	if env.pkg != nil {
		if o, ok := env.pkg.Scope().Lookup(name).(*types.TypeName); ok {
			return o.Type(), te.SortOf(o.Type())
		}
	}
	if strings.HasPrefix(name, "(Array ") {
		return nil, Sort(name)
	}
	if strings.HasPrefix(name, "(") || strings.HasPrefix(name, "BV") {
		var n int
		if _, err := fmt.Sscanf(name, "BV%d", &n); err == nil {
			return nil, BV(n)
		}
	}
	env.fail("unknown type %q", name)
	return nil, ""
}

func (st *State) specCall(e *SExpr, env *specEnv) Value {
	te := st.eng.te
	boolT := types.Typ[types.Bool]
	fun := e.Args[0]
	args := e.Args[1:]
	if fun.Kind == KIdent {
		switch fun.Name {
		case "old":
			if len(args) != 1 {
				env.fail("old takes one argument")
			}
			sub := *env
			sub.heap = env.old
			sub.vars = env.oldVars
			sub.frame = nil
			return st.evalSpec(args[0], &sub)
		case "len", "cap":
			x := st.evalSpec(args[0], env)
			intT := types.Typ[types.Int]
			switch {
			case x.S == SSlice:
				return Value{T: intT, S: BV(64), Term: app("s_"+fun.Name, x.Term)}
			case x.S == SStr:
				return Value{T: intT, S: BV(64), Term: app("slen", x.Term)}
			case x.T != nil:
				switch u := x.T.Underlying().(type) {
				case *types.Array:
					return Value{T: intT, S: BV(64), Term: bvInt(u.Len(), 64)}
				case *types.Map:
					return Value{T: intT, S: BV(64), Term: app("select", st.heapGet(env.heap, "maplen", ArrSort(SRef, BV(64))), x.Term)}
				}
			}
			env.fail("len of %s", x.S)
		case "bytes":
			x := st.evalSpec(args[0], env)
			return Value{S: SBytes, Term: st.bytesOf(env.heap, x)}
		case "H", "be64", "be16", "blen", "bytes_str", "str_bytes":
			x := st.evalSpec(args[0], env)
			switch fun.Name {
			case "H":
				return Value{S: SBytes, Term: app("H", st.coerceTo(x, SBytes, env).Term)}
			case "be64":
				return Value{S: SBytes, Term: app("be64", st.coerceTo(x, BV(64), env).Term)}
			case "be16":
				return Value{S: SBytes, Term: app("be16", st.coerceTo(x, BV(16), env).Term)}
			case "blen":
				return Value{S: SInt, Term: app("blen", st.coerceTo(x, SBytes, env).Term)}
			case "bytes_str":
				return Value{T: types.Typ[types.String], S: SStr, Term: app("bytes_str", x.Term)}
			case "str_bytes":
				return Value{S: SBytes, Term: app("str_bytes", x.Term)}
			}
		case "local":
			// local(x): the program variable x even if its name is a specification keyword (e.g. result)
			if len(args) == 1 && args[0].Kind == KIdent {
				if env.frame != nil {
					if v, ok := st.localByName(env.frame, args[0].Name, env); ok {
						return v
					}
				}
				if v, ok := env.vars["\x00local:"+args[0].Name]; ok {
					return v
				}
				if v, ok := env.vars[args[0].Name]; ok {
					return v
				}
			}
			env.fail("local(%s): no such variable", args[0])
		case "visited":
			// visited(k): the active range-over-map loop has already delivered key k
			if len(args) != 1 || len(st.rangeVis) != 1 {
				env.fail("visited(k) needs exactly one active range over a map (have %d)", len(st.rangeVis))
			}
			for rs, vis := range st.rangeVis {
				k := st.coerceTo(st.evalSpec(args[0], env), rs.keySort, env)
				return Value{T: boolT, S: SBool, Term: app("select", vis, k.Term)}
			}
		case "hlen":
			// output length of the hash function H
			return Value{S: SInt, Term: "hlenH"}
		case "cat":
			if len(args) == 0 {
				return Value{S: SBytes, Term: "bempty"}
			}
			t := st.coerceTo(st.evalSpec(args[len(args)-1], env), SBytes, env).Term
			for i := len(args) - 2; i >= 0; i-- {
				t = app("cat", st.coerceTo(st.evalSpec(args[i], env), SBytes, env).Term, t)
			}
			return Value{S: SBytes, Term: t}
		case "has":
			m := st.evalSpec(args[0], env)
			mt, ok := m.T.Underlying().(*types.Map)
			if !ok {
				env.fail("has: not a map")
			}
			k := st.coerceTo(st.evalSpec(args[1], env), te.SortOf(mt.Key()), env)
			h, _ := st.mapLookupH(env.heap, m, mt, k.Term)
			return Value{T: boolT, S: SBool, Term: h}
		case "fresh":
			x := st.evalSpec(args[0], env)
			r := x.Term
			if x.S == SSlice {
				r = app("s_ref", x.Term)
			}
			return Value{T: boolT, S: SBool, Term: and(not(eq(r, nilRef)), app(">=", rootID(r), env.topOld))}
		case "abytes":
			// abytes(a, lo, hi): the bytes a[lo:hi] of a byte-array VALUE (a field of array type)
			if len(args) != 3 {
				env.fail("abytes takes an array value and two bounds")
			}
			x := st.evalSpec(args[0], env)
			if x.S != ArrSort(BV(64), BV(8)) {
				env.fail("abytes(%s, ..): not a byte array value", args[0])
			}
			lo := st.coerceTo(st.widenIndex(st.evalSpec(args[1], env)), BV(64), env)
			hi := st.coerceTo(st.widenIndex(st.evalSpec(args[2], env)), BV(64), env)
			return Value{S: SBytes, Term: app("bseq", x.Term, lo.Term, app("bvsub", hi.Term, lo.Term))}
		case "lbytes":
			// lbytes(s, n): the bytes of the slice s extended by n bytes to the LEFT within its
			// backing array (a stored key seen through the sub-slice key[n:] that was handed out)
			if len(args) != 2 {
				env.fail("lbytes takes a byte slice and a count")
			}
			x := st.evalSpec(args[0], env)
			if x.S != SSlice {
				env.fail("lbytes(%s, ..): not a slice", args[0])
			}
			n := st.coerceTo(st.widenIndex(st.evalSpec(args[1], env)), BV(64), env)
			a := app("select", st.elemsArr(env.heap, BV(8)), app("s_ref", x.Term))
			return Value{S: SBytes, Term: app("bseq", a, app("bvsub", app("s_off", x.Term), n.Term), app("bvadd", app("s_len", x.Term), n.Term))}
		case "b1":
			// b1(x): the one-byte string holding x
			x := st.coerceTo(st.evalSpec(args[0], env), BV(8), env)
			st.eng.pre.Fun("b1", "((_ BitVec 8)) Bytes")
			return Value{S: SBytes, Term: app("b1", x.Term)}
		case "bsplit":
			// bsplit(s, k): a reminder of a fact of the byte model, bytes(s) == cat(bytes(s[:k]), bytes(s[k:]))
			// for 0 <= k <= len(s); it is added to the hypotheses and the expression itself is true
			if len(args) != 2 {
				env.fail("bsplit takes a byte slice and a split point")
			}
			x := st.evalSpec(args[0], env)
			if x.S != SSlice {
				env.fail("bsplit(%s, ..): not a slice", args[0])
			}
			k := st.coerceTo(st.widenIndex(st.evalSpec(args[1], env)), BV(64), env)
			a := app("select", st.elemsArr(env.heap, BV(8)), app("s_ref", x.Term))
			off, ln := app("s_off", x.Term), app("s_len", x.Term)
			fact := imp(and(app("bvsle", bvInt(0, 64), k.Term), app("bvsle", k.Term, ln)),
				eq(app("bseq", a, off, ln), app("cat", app("bseq", a, off, k.Term), app("bseq", a, app("bvadd", off, k.Term), app("bvsub", ln, k.Term)))))
			if env.facts != nil {
				*env.facts = append(*env.facts, fact)
			}
			st.res.Assumed["byte model: a byte range is the concatenation of its two parts (instances named by bsplit in the contracts)"] = true
			return Value{T: boolT, S: SBool, Term: "true"}
		case "plainprint":
			// plainprint(i): the dynamic type of the interface value i has none of the methods
			// (String, Error, Format, GoString) that fmt's verbs would call instead of printing
			// the value's fields
			x := st.evalSpec(args[0], env)
			if x.S != SIface {
				env.fail("plainprint(%s): not an interface value", args[0])
			}
			st.eng.pre.Fun("plain_tag", "(Int) Bool")
			return Value{T: boolT, S: SBool, Term: app("plain_tag", app("i_tag", x.Term))}
		case "arrayof":
			// arrayof(s): the backing array of the slice s (a reference; nil for a nil slice)
			x := st.evalSpec(args[0], env)
			if x.S != SSlice {
				env.fail("arrayof(%s): not a slice", args[0])
			}
			return Value{S: SRef, Term: app("s_ref", x.Term)}
		case "allocated":
			// allocated(x): x is nil or an object that exists by now (so that a later allocation cannot alias it)
			x := st.evalSpec(args[0], env)
			r := x.Term
			if x.S == SSlice {
				r = app("s_ref", x.Term)
			}
			return Value{T: boolT, S: SBool, Term: app("<", rootID(r), st.allocTop)}
		case "istype":
			x := st.evalSpec(args[0], env)
			T, _ := st.resolveSpecType(args[1].String(), env)
			return Value{T: boolT, S: SBool, Term: eq(app("i_tag", x.Term), fmt.Sprint(te.TypeID(T)))}
		case "box":
			// box(x): x converted to an interface value (as Go's implicit conversion does)
			x := st.evalSpec(args[0], env)
			if x.T == nil {
				env.fail("box of a value without a Go type")
			}
			return st.makeInterface(x, x.T, types.NewInterfaceType(nil, nil))
		case "apply":
			// apply(f, a...): what the statically known function value f (a closure of the caller)
			// returns for the arguments a, taken from a PROVED clause `ensures result == E` of
			// f's own contract (E evaluated with f's parameters bound to a and its captured
			// variables to their current values). Without such a clause nothing is known.
			fv := st.evalSpec(args[0], env)
			var def *SExpr
			if fv.Fn != nil {
				if c := st.eng.fnContract[fv.Fn]; c != nil && !c.Trusted && len(c.Props) > 0 {
					for _, en := range c.Ensures {
						if e := en.Expr; e.Kind == KBinary && e.Op == "==" && e.Args[0].Kind == KIdent && e.Args[0].Name == "result" {
							def = e.Args[1]
							c.Used = true
							break
						}
					}
				}
			}
			if fv.Fn == nil && fv.Term != "" {
				// an unknown (parameter) function value: the uninterpreted application that a call
				// through a PURE function value is equated with (call.go)
				var as []Value
				for _, a := range args[1:] {
					as = append(as, st.evalSpec(a, env))
				}
				if name, ts, ok := st.fnAppTerm(fv.Term, as); ok {
					return Value{T: boolT, S: SBool, Term: app(name, ts...)}
				}
				return st.freshValue("applied", boolT)
			}
			if def == nil || len(args)-1 != len(fv.Fn.Params) {
				return st.freshValue("applied", boolT)
			}
			sub := &specEnv{st: st, vars: map[string]Value{}, heap: env.heap, old: env.heap, topOld: env.topOld, facts: env.facts}
			for p := fv.Fn; p != nil; p = p.Parent() {
				if p.Pkg != nil {
					sub.pkg = p.Pkg.Pkg
				}
			}
			for i, fvar := range fv.Fn.FreeVars {
				if i < len(fv.Bind) && fv.Bind[i].Loc != nil {
					sub.vars[fvar.Name()] = st.readLoc(fv.Bind[i].Loc)
				}
			}
			for i, p := range fv.Fn.Params {
				a := st.evalSpec(args[1+i], env)
				if a.Untyped != nil || a.T == nil {
					a = st.coerceTo(a, st.eng.te.SortOf(p.Type()), env)
					a.T = p.Type()
				}
				sub.vars[p.Name()] = a
			}
			sub.oldVars = sub.vars
			return st.evalSpec(def, sub)
		case "pure_fn":
			// pure_fn(f): calling the function value f changes nothing the caller can observe
			x := st.evalSpec(args[0], env)
			st.eng.pre.Fun("fn_pure", "(Ref) Bool")
			if os_debug {
				fmt.Printf("pure_fn: Fn=%v Term=%q\n", x.Fn, x.Term)
			}
			if x.Fn != nil {
				// a known function or closure: decided syntactically (reads only)
				if st.eng.isPureFn(x.Fn) || st.eng.readOnlyFn(x.Fn, 0) {
					return Value{T: boolT, S: SBool, Term: "true"}
				}
				return Value{T: boolT, S: SBool, Term: "false"}
			}
			if x.Term == "" {
				return Value{T: boolT, S: SBool, Term: "true"}
			}
			return Value{T: boolT, S: SBool, Term: app("fn_pure", x.Term)}
		case "hashlen_fn":
			// hashlen_fn(f): the Len() of the hashers the factory f returns (ghost attribute)
			x := st.evalSpec(args[0], env)
			st.eng.pre.Fun("fn_hashlen", "(Ref) (_ BitVec 16)")
			if x.Term == "" {
				env.fail("hashlen_fn of a static function")
			}
			return Value{T: types.Typ[types.Uint16], S: BV(16), Term: app("fn_hashlen", x.Term)}
		case "hashlen":
			// hashlen(h): the constant Len() of hasher h (ghost attribute)
			x := st.evalSpec(args[0], env)
			st.eng.pre.Fun("iface_hashlen", "(Iface) (_ BitVec 16)")
			return Value{T: types.Typ[types.Uint16], S: BV(16), Term: app("iface_hashlen", x.Term)}
		case "nonnil_fn":
			// nonnil_fn(f): every call of the function value f returns non-nil results
			x := st.evalSpec(args[0], env)
			st.eng.pre.Fun("fn_ret_nonnil", "(Ref) Bool")
			t := x.Term
			if t == "" {
				return Value{T: boolT, S: SBool, Term: "true"}
			}
			return Value{T: boolT, S: SBool, Term: app("fn_ret_nonnil", t)}
		case "isnil":
			x := st.evalSpec(args[0], env)
			switch x.S {
			case SSlice:
				return Value{T: boolT, S: SBool, Term: eq(app("s_ref", x.Term), nilRef)}
			case SIface:
				return Value{T: boolT, S: SBool, Term: eq(app("i_tag", x.Term), "0")}
			}
			return Value{T: boolT, S: SBool, Term: eq(x.Term, nilRef)}
		case "asptr":
			// asptr(r, *T): the untyped reference r (an element of a ghost array) viewed as a *T
			if len(args) != 2 {
				env.fail("asptr takes a reference and a pointer type")
			}
			x := st.evalSpec(args[0], env)
			T, s := st.resolveSpecType(args[1].String(), env)
			// (also a slice value of a ghost array viewed as a []T)
			if s != x.S || (s != SRef && s != SSlice) {
				env.fail("asptr(%s, %s): the value is a %s", args[0], args[1], x.S)
			}
			return Value{T: T, S: s, Term: x.Term}
		case "dyn":
			// dyn(i, *T): the dynamic value of interface i viewed as type *T (pointer-like)
			x := st.evalSpec(args[0], env)
			if len(args) == 1 {
				// dyn(i): the dynamic value of i when its dynamic type is statically known at this call site
				if strings.HasPrefix(x.Term, "(mk_iface ") {
					parts := splitTop(x.Term[len("(mk_iface ") : len(x.Term)-1])
					var id int
					if _, err := fmt.Sscanf(parts[0], "%d", &id); err == nil {
						te.mu.Lock()
						DT := te.typeByID[id]
						te.mu.Unlock()
						if DT != nil && te.SortOf(DT) == SRef {
							return Value{T: DT, S: SRef, Term: parts[1]}
						}
					}
				}
				env.fail("dyn(%s): dynamic type not statically known here", args[0])
			}
			T, s := st.resolveSpecType(args[1].String(), env)
			if s == SRef {
				return Value{T: T, S: SRef, Term: app("i_ref", x.Term)}
			}
			unbox := "unbox_" + s.Mangle()
			st.eng.pre.Fun("box_"+s.Mangle(), fmt.Sprintf("(%s) Ref", s))
			st.eng.pre.Fun(unbox, fmt.Sprintf("(Ref) %s", s))
			return Value{T: T, S: s, Term: app(unbox, app("i_ref", x.Term))}
		case "unchanged":
			var cs []string
			for _, a := range args {
				now := st.evalSpec(a, env)
				sub := *env
				sub.heap = env.old
				sub.vars = env.oldVars
				sub.frame = nil
				was := st.evalSpec(a, &sub)
				cs = append(cs, eq(now.Term, was.Term))
			}
			return Value{T: boolT, S: SBool, Term: and(cs...)}
		case "store":
			// store(a, k, v) on spec-level arrays (ghost maps)
			a := st.evalSpec(args[0], env)
			if !strings.HasPrefix(string(a.S), "(Array ") {
				env.fail("store on non-array %s", a.S)
			}
			parts := splitTop(string(a.S)[7 : len(a.S)-1])
			k := st.coerceTo(st.evalSpec(args[1], env), Sort(parts[0]), env)
			v := st.evalSpec(args[2], env)
			if v.Untyped != nil || v.S == "nil" {
				v = st.coerceTo(v, Sort(parts[1]), env)
			}
			return Value{S: a.S, Term: app("store", a.Term, k.Term, v.Term)}
		case "ite":
			c := st.evalSpec(args[0], env)
			a := st.evalSpec(args[1], env)
			b := st.evalSpec(args[2], env)
			if a.Untyped != nil {
				a = st.coerceTo(a, b.S, env)
				a.T = b.T
			}
			if b.Untyped != nil {
				b = st.coerceTo(b, a.S, env)
				b.T = a.T
			}
			return Value{T: a.T, S: a.S, Term: ite(c.Term, a.Term, b.Term)}
		case "toint":
			x := st.evalSpec(args[0], env)
			if x.Untyped != nil {
				return st.coerceTo(x, SInt, env)
			}
			return Value{S: SInt, Term: app("bv2nat", x.Term)}
		}
		// conversions to Go types
		if len(args) == 1 {
			if T, s, ok := st.tryType(fun.Name, env); ok {
				x := st.evalSpec(args[0], env)
				if x.Untyped != nil {
					v := st.coerceTo(x, s, env)
					v.T = T
					return v
				}
				if x.S == "nil" {
					v := st.coerceTo(x, s, env)
					v.T = T
					return v
				}
				if T != nil && x.T != nil {
					return st.convert(x, x.T, T)
				}
				if x.S == s {
					x.T = T
					return x
				}
				if x.S.IsBV() && s.IsBV() {
					src := x.T
					if src == nil {
						src = types.Typ[types.Uint64]
					}
					dst := T
					if dst == nil {
						dst = types.Typ[types.Uint64]
					}
					v := st.convert(Value{T: src, S: x.S, Term: x.Term}, src, dst)
					v.S = s
					return v
				}
				env.fail("cannot convert %s to %s", x.S, fun.Name)
			}
		}
		// defines
		if d, ok := st.eng.cs.Defines[fun.Name]; ok {
			if len(d.Params) != len(args) {
				env.fail("%s: wrong number of arguments", fun.Name)
			}
			sub := *env
			sub.vars = map[string]Value{}
			for k, v := range env.vars {
				sub.vars[k] = v
			}
			for i, p := range d.Params {
				sub.vars[p] = st.evalSpec(args[i], env)
			}
			sub.oldVars = sub.vars
			sub.frame = nil // a definition is closed over its parameters: no capture of the caller's locals
			if d.Pkg != "" {
				if sp := st.eng.ssaPkg(d.Pkg); sp != nil {
					sub.pkg = sp.Pkg // names in the body are those of the package that wrote the definition
				}
			}
			return st.evalSpec(d.Body, &sub)
		}
		// uninterpreted spec functions
		if sf, ok := st.eng.cs.Specs[fun.Name]; ok {
			if len(sf.Params) != len(args) {
				env.fail("%s: wrong number of arguments", fun.Name)
			}
			var ts, ss []string
			denv := env
			if sf.Pkg != "" {
				if sp := st.eng.ssaPkg(sf.Pkg); sp != nil && sp.Pkg != env.pkg {
					d2 := *env
					d2.pkg = sp.Pkg
					denv = &d2
				}
			}
			for i, a := range args {
				_, s := st.resolveSpecType(sf.Params[i], denv)
				v := st.coerceTo(st.evalSpec(a, env), s, env)
				ts = append(ts, v.Term)
				ss = append(ss, string(s))
			}
			rT, rs := st.resolveSpecType(sf.Result, denv)
			st.eng.pre.Fun(sf.Name, fmt.Sprintf("(%s) %s", strings.Join(ss, " "), rs))
			if len(ts) == 0 {
				return Value{T: rT, S: rs, Term: sf.Name}
			}
			res := Value{T: rT, S: rs, Term: app(sf.Name, ts...)}
			unfold := sf.Body != nil && !env.noUnfold && env.facts != nil
			if unfold && len(ss) > 0 && Sort(ss[0]) == SIface && !strings.HasPrefix(ts[0], "(mk_iface ") {
				// a definition by cases on the dynamic type of its first argument: unfolding it at an
				// object of unknown type only yields the whole case distinction (large, rarely useful)
				unfold = false
			}
			if unfold {
				sub := *env
				sub.noUnfold = true
				sub.vars = map[string]Value{}
				for i, pn := range sf.PNames {
					pT, ps := st.resolveSpecType(sf.Params[i], denv)
					sub.vars[pn] = Value{T: pT, S: ps, Term: ts[i]}
				}
				sub.oldVars = sub.vars
				sub.frame = nil
				sub.result = nil
				if sf.Pkg != "" {
					if sp := st.eng.ssaPkg(sf.Pkg); sp != nil {
						sub.pkg = sp.Pkg
					}
				}
				body := st.coerceTo(st.evalSpec(sf.Body, &sub), rs, env)
				*env.facts = append(*env.facts, eq(res.Term, body.Term))
			}
			return res
		}
	}
	env.fail("unknown function %s", fun)
	return Value{}
}

func (st *State) tryType(name string, env *specEnv) (T types.Type, s Sort, ok bool) {
	defer func() {
		if r := recover(); r != nil {
			if _, isSpec := r.(specErr); isSpec {
				ok = false
				return
			}
			panic(r)
		}
	}()
	T, s = st.resolveSpecType(name, env)
	return T, s, true
}

// evalLocs evaluates a modifies entry to frame entries.
func (st *State) evalLocs(e *SExpr, env *specEnv) (out []modEntry) {
	defer func() {
		if r := recover(); r != nil {
			if se, ok := r.(specErr); ok {
				if !strings.Contains(string(se), "dynamic type not statically known") {
					st.res.Errors = append(st.res.Errors, "modifies: "+string(se))
				}
				out = []modEntry{{kind: "all"}}
				return
			}
			panic(r)
		}
	}()
	if e.Kind == KBinary && e.Op == "when" {
		c := st.evalSpec(e.Args[1], env)
		ents := st.evalLocs(e.Args[0], env)
		for i := range ents {
			ents[i].cond = and(ents[i].cond, c.Term)
			if ents[i].cond == "true" {
				ents[i].cond = ""
			}
		}
		return ents
	}
	if e.Kind == KCall && e.Args[0].Kind == KIdent && e.Args[0].Name == "allbut" && len(e.Args) == 2 {
		// allbut(S), S a slice type: everything EXCEPT the elements of the arrays behind slices of
		// that element type that exist when the frame is entered
		T, _ := st.resolveSpecType(e.Args[1].String(), env)
		if _, ok := T.Underlying().(*types.Slice); !ok {
			env.fail("allbut(%s): not a slice type", e.Args[1])
		}
		return []modEntry{{kind: "allbut", T: T}}
	}
	if e.Kind == KCall && e.Args[0].Kind == KIdent && e.Args[0].Name == "all" && len(e.Args) == 2 && e.Args[1].Kind == KSel {
		// all(T.f): field f of every object of struct type T
		T, _ := st.resolveSpecType(e.Args[1].Args[0].String(), env)
		stt, ok := T.Underlying().(*types.Struct)
		if !ok {
			env.fail("all(%s): not a struct type", e.Args[1])
		}
		for i := 0; i < stt.NumFields(); i++ {
			if stt.Field(i).Name() == e.Args[1].Name {
				fa := st.eng.fsub("(mkref 0)", T, i)
				parts := splitTop(fa[5 : len(fa)-1])
				return []modEntry{{kind: "fieldall", name: parts[1], T: stt.Field(i).Type()}}
			}
		}
		env.fail("all(%s): no such field", e.Args[1])
	}
	switch e.Kind {
	case KIdent:
		if e.Name == "everything" {
			return []modEntry{{kind: "all"}}
		}
		if _, ok := st.eng.cs.Ghosts[e.Name]; ok {
			return []modEntry{{kind: "ghost", name: "ghost_" + e.Name}}
		}
	case KStar:
		x := st.evalSpec(e.Args[0], env)
		if e.Op == "[]" {
			switch x.T.Underlying().(type) {
			case *types.Slice:
				return []modEntry{{kind: "elems", ref: app("s_ref", x.Term), T: x.T}}
			case *types.Map:
				return []modEntry{{kind: "map", ref: x.Term, T: x.T}}
			}
			env.fail("[*] on %s", typeStr(x.T))
		}
		pt, ok := x.T.Underlying().(*types.Pointer)
		if !ok {
			env.fail(".* on non-pointer")
		}
		return []modEntry{{kind: "fields", ref: x.Term, T: pt.Elem()}}
	}
	addr, T := st.evalAddr(e, env)
	return []modEntry{{kind: "cell", ref: addr, T: T}}
}
