package main

import (
	"fmt"
	"go/token"
	"go/types"
	"strings"

	"golang.org/x/tools/go/ssa"
)

func (st *State) newFrame(fn *ssa.Function, c *Contract) *Frame {
	fr := &Frame{fn: fn, regs: map[ssa.Value]Value{}, cells: map[*ssa.Alloc]*Cell{}, fvCells: map[*ssa.FreeVar]Value{},
		loopActive: map[*ssa.BasicBlock]bool{}, loopMeasure: map[*ssa.BasicBlock]string{}, loopSets: map[*ssa.BasicBlock]*modSet{}, contract: c}
	if len(fn.Blocks) > 0 {
		fr.block = fn.Blocks[0]
	}
	return fr
}

const maxSteps = 20000

// run executes the state until its path ends; returns forked states.
func (st *State) run() []*State {
	forks := st.run1()
	forks = append(forks, st.pendingForks...)
	st.pendingForks = nil
	return forks
}

func (st *State) run1() []*State {
	var forks []*State
	for !st.dead {
		st.steps++
		if st.steps > maxSteps {
			st.res.Errors = append(st.res.Errors, "path too long")
			return forks
		}
		f := st.top()
		if f.pendingRecover {
			// unwound here by a panic: run the deferred calls first
			f.pendingRecover = false
			st.runDefers(f)
			continue
		}
		if f.idx == 0 && f.block == f.fn.Recover && st.panicking {
			// no deferred call recovered: the panic propagates out of the function under proof
			st.panicking = false
			if len(st.frames) == 1 {
				st.oblige("panic", "panic:unrecovered", "false", "a panic is not recovered by "+f.fn.Name())
				st.dead = true
				return forks
			}
		}
		if f.idx == 0 {
			if st.enterBlock(f) {
				return forks
			}
		}
		if f.idx >= len(f.block.Instrs) {
			st.res.Errors = append(st.res.Errors, "fell off block")
			return forks
		}
		ins := f.block.Instrs[f.idx]
		f.idx++
		switch x := ins.(type) {
		case *ssa.If:
			c := st.eval(x.Cond).Term
			tb, fb := f.block.Succs[0], f.block.Succs[1]
			if c == "true" {
				st.jump(f, tb)
				continue
			}
			if c == "false" {
				st.jump(f, fb)
				continue
			}
			other := st.clone()
			other.assume(not(c))
			other.jump(other.top(), fb)
			forks = append(forks, other)
			st.assume(c)
			st.jump(f, tb)
		case *ssa.Jump:
			st.jump(f, f.block.Succs[0])
		case *ssa.Return:
			if st.doReturn(f, x) {
				return forks
			}
		case *ssa.Panic:
			st.doPanic(f, x)
			if st.dead {
				return forks
			}
		default:
			more := st.step(f, ins)
			forks = append(forks, more...)
		}
		if len(st.pendingForks) > 0 {
			forks = append(forks, st.pendingForks...)
			st.pendingForks = nil
		}
	}
	forks = append(forks, st.pendingForks...)
	st.pendingForks = nil
	return forks
}

func (st *State) jump(f *Frame, to *ssa.BasicBlock) {
	f.prev = f.block
	f.block = to
	f.idx = 0
}

// enterBlock handles loop headers. Returns true if the path ends here.
func (st *State) enterBlock(f *Frame) bool {
	li := st.eng.loops(f.fn)
	// leaving loops: pop loop modsets whose loop we are no longer in
	for h, ms := range f.loopSets {
		if !li.blocks[h][f.block] {
			for i, m := range st.modsets {
				if m == ms {
					st.modsets = append(st.modsets[:i:i], st.modsets[i+1:]...)
					break
				}
			}
			delete(f.loopSets, h)
		}
	}
	k, isHeader := li.headers[f.block]
	if !isHeader {
		return false
	}
	var spec *LoopSpec
	if f.contract != nil {
		spec = f.contract.Loops[k]
	} else if c := st.eng.fnContract[f.fn]; c != nil {
		spec = c.Loops[k]
	}
	body := li.blocks[f.block]
	fromBack := f.prev != nil && body[f.prev]
	env := st.specEnv(f, nil, false)
	if fromBack && f.loopActive[f.block] {
		// back edge: re-establish the invariant, check the measure, stop.
		if spec != nil {
			for i, inv := range spec.Invariants {
				t := st.evalBool(inv.Expr, env, inv)
				st.oblige("inv-pres", fmt.Sprintf("inv-pres:loop#%d:%s", k, clauseLabel(inv, i)), t, inv.Src)
			}
			if spec.Decreases != nil {
				m := st.evalSpec(spec.Decreases.Expr, env)
				old := f.loopMeasure[f.block]
				st.oblige("decr", fmt.Sprintf("decr:loop#%d", k), st.measureDecreases(m, old), spec.Decreases.Src)
			}
		}
		st.dead = true
		return true
	}
	// first arrival
	if spec != nil {
		for i, inv := range spec.Invariants {
			t := st.evalBool(inv.Expr, env, inv)
			st.oblige("inv-init", fmt.Sprintf("inv-init:loop#%d:%s", k, clauseLabel(inv, i)), t, inv.Src)
		}
	}
	// havoc what the loop modifies
	var ms *modSet
	if spec != nil && spec.HasMod {
		ms = &modSet{allocTop: st.allocTop, what: fmt.Sprintf("loop#%d", k)}
		for _, m := range spec.Modifies {
			ms.entries = append(ms.entries, st.evalLocs(m, env)...)
		}
	}
	// an arbitrary iteration: earlier iterations may have allocated objects
	{
		nt := st.fresh("top", SInt)
		st.assume(app(">=", nt, st.allocTop))
		st.allocTop = nt
	}
	st.havocLoop(f, body, ms)
	if ms != nil {
		st.modsets = append(st.modsets, ms)
		f.loopSets[f.block] = ms
	}
	f.loopActive[f.block] = true
	env = st.specEnv(f, nil, false)
	if spec != nil {
		for _, inv := range spec.Invariants {
			st.assume(st.evalBool(inv.Expr, env, inv))
		}
		if spec.Decreases != nil {
			m := st.evalSpec(spec.Decreases.Expr, env)
			n := st.fresh("measure", m.S)
			st.assume(eq(n, m.Term))
			f.loopMeasure[f.block] = n
		}
	}
	return false
}

func clauseLabel(c *Clause, i int) string {
	if c.Label != "" {
		return c.Label
	}
	return fmt.Sprintf("%d", i+1)
}

// measureDecreases: new < old and old > 0 (signed for BV, Int otherwise)
func (st *State) measureDecreases(m Value, old string) string {
	if m.S.IsBV() && m.T != nil && !isSigned(m.T) {
		return app("bvult", m.Term, old)
	}
	if m.S.IsBV() {
		return and(app("bvslt", m.Term, old), app("bvsge", m.Term, bvInt(0, m.S.Bits())))
	}
	return and(app("<", m.Term, old), app(">=", m.Term, "0"))
}

// havocLoop forgets the cells and heap locations a loop may modify.
func (st *State) havocLoop(f *Frame, body map[*ssa.BasicBlock]bool, ms *modSet) {
	// the visited sets of active map iterators are loop state as well
	for rs := range st.rangeVis {
		st.setVis(rs, st.fresh("visited", ArrSort(rs.keySort, SBool)))
	}
	heapAll := false
	memSorts := map[string]Sort{}
	immW := map[string]Sort{}
	defer func() {
		for name, s := range immW {
			_ = st.heapGet(st.heap, name, s)
			st.heap.m[name] = st.fresh(name, s)
		}
	}()
	var visitFn func(fn *ssa.Function, blocks map[*ssa.BasicBlock]bool, depth int)
	seenFn := map[*ssa.Function]bool{}
	visitFn = func(fn *ssa.Function, blocks map[*ssa.BasicBlock]bool, depth int) {
		for _, b := range fn.Blocks {
			if blocks != nil && !blocks[b] {
				continue
			}
			for _, ins := range b.Instrs {
				switch x := ins.(type) {
				case *ssa.Store:
					if al := rootAlloc(x.Addr); al != nil && st.eng.cellable(al) {
						if fn == f.fn {
							if c, ok := f.cells[al]; ok {
								st.cellVals[c] = st.freshValue("hv_"+c.Name, c.T)
								if c.Name == "rangeindex" {
									// the hidden index of a range-over-slice loop starts at -1 and only grows
									st.assume(app("bvsge", st.cellVals[c].Term, bvInt(-1, 64)))
									st.assume(app("bvsle", st.cellVals[c].Term, bvInt(1<<40, 64)))
								}
							}
						}
						continue
					}
					if fv := rootFreeVar(x.Addr); fv != nil {
						if l, ok := f.fvCells[fv]; ok && l.Loc != nil && fn == f.fn {
							st.cellVals[l.Loc.Cell] = st.freshValue("hv_"+l.Loc.Cell.Name, l.Loc.Cell.T)
							continue
						}
						// closure called in loop writes captured variable: find by name
						for _, c := range f.cells {
							if c.Name == fv.Name() {
								st.cellVals[c] = st.freshValue("hv_"+c.Name, c.T)
							}
						}
						continue
					}
					if n, s, ok := st.eng.immArrayOfStore(x.Addr); ok {
						// a field declared immutable, written in the loop by one of its listed writers:
						// its own heap array is loop state like any other (it is exempt from the havoc
						// of calls, not from the writes of its writers)
						immW[n] = s
					}
					st.sortsOfStore(x.Val.Type(), memSorts)
				case *ssa.MapUpdate:
					mt := x.Map.Type().Underlying().(*types.Map)
					ks, vs := st.eng.te.SortOf(mt.Key()), st.eng.te.SortOf(mt.Elem())
					memSorts[mapHasName(ks, vs)] = ArrSort(SRef, ArrSort(ks, SBool))
					memSorts[mapValName(ks, vs)] = ArrSort(SRef, ArrSort(ks, vs))
				case *ssa.Send:
					if gs, gv := st.eng.cs.Ghosts["sends"], st.eng.cs.Ghosts["sentv"]; gs != nil && gv != nil {
						_, memSorts["ghost_sends"] = st.ghostType(gs)
						_, memSorts["ghost_sentv"] = st.ghostType(gv)
					}
				case ssa.CallInstruction:
					cc := x.Common()
					if b, ok := cc.Value.(*ssa.Builtin); ok {
						switch b.Name() {
						case "append", "copy", "delete", "clear":
							heapAll = true // coarse
						}
						continue
					}
					callee := cc.StaticCallee()
					var c *Contract
					if callee != nil {
						c = st.eng.fnContract[callee]
					} else if cc.IsInvoke() {
						c = st.eng.methContract[cc.Method]
					}
					if c != nil {
						if len(c.Modifies) > 0 {
							heapAll = true // coarse: callee frame evaluated per call
						}
						continue
					}
					if callee != nil && st.eng.isPureFn(callee) {
						continue
					}
					if callee != nil && callee.Blocks != nil && depth < 3 && !seenFn[callee] && st.eng.inModule(callee) {
						seenFn[callee] = true
						visitFn(callee, nil, depth+1)
						continue
					}
					heapAll = true
				}
			}
		}
	}
	visitFn(f.fn, body, 0)
	if ms != nil {
		// declared loop frame: havoc exactly that
		st.havocModset(ms)
		return
	}
	if heapAll {
		st.havocAll("loop in " + f.fn.Name() + " calls code without a frame")
		return
	}
	for name, s := range memSorts {
		_ = st.heapGet(st.heap, name, s)
		st.heap.m[name] = st.fresh(name, s)
	}
}

func (st *State) sortsOfStore(T types.Type, out map[string]Sort) {
	te := st.eng.te
	switch u := T.Underlying().(type) {
	case *types.Struct:
		for i := 0; i < u.NumFields(); i++ {
			st.sortsOfStore(u.Field(i).Type(), out)
		}
	case *types.Array:
		es := te.SortOf(u.Elem())
		out[elemsName(es)] = ArrSort(SRef, ArrSort(BV(64), es))
	default:
		s := te.SortOf(T)
		out[memName(s)] = ArrSort(SRef, s)
		out[elemsName(s)] = ArrSort(SRef, ArrSort(BV(64), s))
	}
}

func rootAlloc(v ssa.Value) *ssa.Alloc {
	for {
		switch x := v.(type) {
		case *ssa.Alloc:
			return x
		case *ssa.FieldAddr:
			v = x.X
		case *ssa.IndexAddr:
			v = x.X
		default:
			return nil
		}
	}
}
func rootFreeVar(v ssa.Value) *ssa.FreeVar {
	for {
		switch x := v.(type) {
		case *ssa.FreeVar:
			return x
		case *ssa.FieldAddr:
			v = x.X
		case *ssa.IndexAddr:
			v = x.X
		default:
			return nil
		}
	}
}

func (e *Engine) inModule(fn *ssa.Function) bool {
	p := fn.Pkg
	if p == nil && fn.Parent() != nil {
		return e.inModule(fn.Parent())
	}
	if p == nil {
		// methods of instantiated generics / wrappers
		if fn.Object() != nil && fn.Object().Pkg() != nil {
			return strings.HasPrefix(fn.Object().Pkg().Path(), modPath)
		}
		return false
	}
	return strings.HasPrefix(p.Pkg.Path(), modPath) && !strings.HasSuffix(p.Pkg.Path(), "/rocksdb")
}

func (e *Engine) isPureFn(fn *ssa.Function) bool {
	var path string
	if fn.Pkg != nil {
		path = fn.Pkg.Pkg.Path()
	} else if fn.Object() != nil && fn.Object().Pkg() != nil {
		path = fn.Object().Pkg().Path()
	}
	if e.purePkgs[path] {
		return true
	}
	for p := range e.purePkgs {
		if strings.HasSuffix(p, "/...") && strings.HasPrefix(path, strings.TrimSuffix(p, "/...")) {
			return true
		}
	}
	return false
}

// ---------------------------------------------------------------------------
// return / panic

func (st *State) doReturn(f *Frame, x *ssa.Return) bool {
	var results []Value
	for _, r := range x.Results {
		results = append(results, st.eval(r))
	}
	if len(st.frames) == 1 {
		// top-level: postconditions
		st.checkCtorInv(f, results, x)
		c := f.contract
		if c != nil && len(c.Preserves) > 0 {
			env := st.specEnv(f, results, true)
			for i, p := range c.Preserves {
				func() {
					defer func() {
						if r := recover(); r != nil {
							if se, ok := r.(specErr); ok {
								st.res.Errors = append(st.res.Errors, "preserves: "+string(se))
								return
							}
							panic(r)
						}
					}()
					// the location is the one the expression denotes at ENTRY
					oenv := *env
					oenv.heap = env.old
					addr, T := st.evalAddr(p, &oenv)
					now := st.loadH(st.heap, addr, T)
					was := st.loadH(st.oldHeap, addr, T)
					src := p.String()
					st.oblige("post", fmt.Sprintf("preserves:%d:%s", i+1, src), eq(now.Term, was.Term), "preserves "+src+"  [return at "+st.pos(x)+"]")
				}()
			}
		}
		if c != nil {
			env := st.specEnv(f, results, true)
			for i, en := range c.Ensures {
				t := st.evalBool(en.Expr, env, en)
				st.oblige("post", "post:"+clauseLabel(en, i), t, en.Src+"  [return at "+st.pos(x)+"]")
			}
		}
		st.res.VCs = append(st.res.VCs, &VC{Name: "cover:" + st.eng.ordinal(f.fn, x, "return"), Func: st.res.Key, Kind: "cover", Goal: "true", ExpectSat: true,
			Decls: st.decls.slice(), Asserts: st.asserts.slice(), Note: "return at " + st.pos(x) + " is reachable"})
		st.dead = true
		return true
	}
	// inlined frame: pop
	st.frames = st.frames[:len(st.frames)-1]
	if f.iter != nil {
		st.iterReturn(f)
		return true
	}
	caller := st.top()
	if f.retTo != nil && !f.discard {
		if v, ok := f.retTo.(ssa.Value); ok {
			switch len(results) {
			case 0:
			case 1:
				caller.regs[v] = results[0]
			default:
				caller.regs[v] = Value{T: v.Type(), S: "Tuple", Tuple: results}
			}
		}
	}
	if f.afterDefers {
		// we were running a deferred call from RunDefers: continue running the remaining ones
		st.runDefers(caller)
	}
	return false
}

func (st *State) doPanic(f *Frame, x *ssa.Panic) {
	if i := st.recoveringFrame(); i >= 0 {
		if !st.unwindTo(i) {
			st.dead = true
		}
		return
	}
	c := st.frames[0].contract
	if c.mayPanic() {
		st.dead = true
		return
	}
	name := "panic:" + st.eng.ordinal(f.fn, x, "explicit")
	st.oblige("panic", name, "false", "explicit panic at "+st.pos(x))
	st.dead = true
	return
}

// ---------------------------------------------------------------------------
// instructions

func (st *State) step(f *Frame, ins ssa.Instruction) []*State {
	te := st.eng.te
	switch x := ins.(type) {
	case *ssa.DebugRef:
	case *ssa.Alloc:
		T := x.Type().(*types.Pointer).Elem()
		if st.eng.cellable(x) {
			c := &Cell{Name: x.Comment, T: T, ID: len(st.cellVals)}
			f.cells[x] = c
			f.cellOrder = append(f.cellOrder, x)
			st.cellVals[c] = Value{T: T, S: te.SortOf(T), Term: te.Zero(T)}
			f.regs[x] = Value{T: x.Type(), S: SRef, Loc: &Loc{Cell: c}}
		} else {
			r := st.newObject()
			st.assume(st.typedRef(r, x.Type()))
			st.storeMem(r, T, Value{T: T, S: te.SortOf(T), Term: te.Zero(T)})
			f.regs[x] = Value{T: x.Type(), S: SRef, Term: r}
		}
	case *ssa.Store:
		addr := st.eval(x.Addr)
		val := st.eval(x.Val)
		if addr.Loc != nil {
			st.writeLoc(addr.Loc, val)
			return nil
		}
		st.panicOb(x, "nil", not(eq(addr.Term, nilRef)), "nil pointer dereference (store)")
		st.frameCheck(x, addr.Term, "store")
		st.storeMem(addr.Term, x.Val.Type(), val)
	case *ssa.UnOp:
		f.regs[x] = st.unop(f, x)
	case *ssa.BinOp:
		f.regs[x] = st.binop(x, x.Op, st.eval(x.X), st.eval(x.Y), x.Type())
	case *ssa.FieldAddr:
		base := st.eval(x.X)
		if base.Loc != nil {
			stt := x.X.Type().Underlying().(*types.Pointer).Elem().Underlying().(*types.Struct)
			nl := &Loc{Cell: base.Loc.Cell, Path: append(append([]step(nil), base.Loc.Path...), step{field: x.Field, T: stt.Field(x.Field).Type()})}
			f.regs[x] = Value{T: x.Type(), S: SRef, Loc: nl}
			return nil
		}
		st.panicOb(x, "nil", not(eq(base.Term, nilRef)), "nil pointer dereference (field "+fieldName(x)+")")
		if len(st.eng.cs.TypeInvs) > 0 && st.eng.typeInvFor(x.X.Type()) != nil && !st.eng.typeInvFor(x.X.Type()).isCtor(f.fn) {
			st.assume(st.typeInvTerm(Value{T: x.X.Type(), S: SRef, Term: base.Term}, st.heap))
		}
		if len(st.eng.cs.Guards) > 0 {
			st.guardCheck(f, x, base.Term)
		}
		f.regs[x] = Value{T: x.Type(), S: SRef, Term: st.eng.fsub(base.Term, x.X.Type().Underlying().(*types.Pointer).Elem(), x.Field)}
	case *ssa.Field:
		v := st.eval(x.X)
		ft := x.Type()
		f.regs[x] = Value{T: ft, S: te.SortOf(ft), Term: te.StructGet(v.S, x.Field, v.Term)}
	case *ssa.IndexAddr:
		f.regs[x] = st.indexAddr(x)
	case *ssa.Index:
		f.regs[x] = st.index(x)
	case *ssa.Slice:
		f.regs[x] = st.slice(x)
	case *ssa.Lookup:
		f.regs[x] = st.lookup(x)
	case *ssa.MapUpdate:
		st.mapUpdate(x)
	case *ssa.MakeSlice:
		f.regs[x] = st.makeSlice(x)
	case *ssa.MakeMap:
		r := st.newObject()
		mt := x.Type().Underlying().(*types.Map)
		ks, vs := te.SortOf(mt.Key()), te.SortOf(mt.Elem())
		hn := mapHasName(ks, vs)
		has := st.heapGet(st.heap, hn, ArrSort(SRef, ArrSort(ks, SBool)))
		st.heapSet(hn, ArrSort(SRef, ArrSort(ks, SBool)), app("store", has, r, fmt.Sprintf("((as const %s) false)", ArrSort(ks, SBool))))
		ml := st.heapGet(st.heap, "maplen", ArrSort(SRef, BV(64)))
		st.heapSet("maplen", ArrSort(SRef, BV(64)), app("store", ml, r, bvInt(0, 64)))
		f.regs[x] = Value{T: x.Type(), S: SRef, Term: r}
	case *ssa.MakeChan:
		f.regs[x] = Value{T: x.Type(), S: SRef, Term: st.newObject()}
	case *ssa.MakeClosure:
		var binds []Value
		for _, b := range x.Bindings {
			binds = append(binds, st.eval(b))
		}
		f.regs[x] = Value{T: x.Type(), S: SRef, Fn: x.Fn.(*ssa.Function), Bind: binds}
		if cc := st.eng.fnContract[x.Fn.(*ssa.Function)]; cc != nil && len(cc.Captures) > 0 {
			// creation-time obligations on the captured variables
			cfn := x.Fn.(*ssa.Function)
			env := &specEnv{st: st, vars: map[string]Value{}, heap: st.heap, old: st.heap, topOld: st.allocTop}
			for i, fv := range cfn.FreeVars {
				if i < len(binds) && binds[i].Loc != nil {
					env.vars[fv.Name()] = st.readLoc(binds[i].Loc)
				}
			}
			env.oldVars = env.vars
			if f.fn.Pkg != nil {
				env.pkg = f.fn.Pkg.Pkg
			}
			for i, cp := range cc.Captures {
				t := st.evalBool(cp.Expr, env, cp)
				st.oblige("pre", fmt.Sprintf("captures:%s:%s", strings.TrimPrefix(cfn.Name(), f.fn.Name()), clauseLabel(cp, i)), t, cp.Src+"  [closure created at "+st.pos(x)+"]")
			}
		}
	case *ssa.MakeInterface:
		f.regs[x] = st.makeInterface(st.eval(x.X), x.X.Type(), x.Type())
	case *ssa.ChangeInterface:
		v := st.eval(x.X)
		f.regs[x] = Value{T: x.Type(), S: SIface, Term: v.Term}
	case *ssa.ChangeType:
		v := st.eval(x.X)
		ns := te.SortOf(x.Type())
		if ns != v.S {
			v = st.restruct(v, x.Type())
		}
		v.T = x.Type()
		f.regs[x] = v
	case *ssa.Convert:
		f.regs[x] = st.convert(st.eval(x.X), x.X.Type(), x.Type())
	case *ssa.TypeAssert:
		f.regs[x] = st.typeAssert(x)
	case *ssa.Extract:
		t := st.eval(x.Tuple)
		if x.Index < len(t.Tuple) {
			f.regs[x] = t.Tuple[x.Index]
		} else {
			f.regs[x] = st.freshValue("extract", x.Type())
		}
	case *ssa.Phi:
		for i, p := range f.block.Preds {
			if p == f.prev {
				f.regs[x] = st.eval(x.Edges[i])
				return nil
			}
		}
		f.regs[x] = st.freshValue("phi", x.Type())
	case *ssa.Range:
		v := st.eval(x.X)
		kind := "map"
		if _, ok := x.X.Type().Underlying().(*types.Basic); ok {
			kind = "string"
		}
		rs := &rangeState{over: v, kind: kind}
		f.regs[x] = Value{T: x.Type(), S: SRef, Term: "range", Range: rs}
		if mt, ok := x.X.Type().Underlying().(*types.Map); ok {
			ks := st.eng.te.SortOf(mt.Key())
			rs.keySort = ks
			st.setVis(rs, fmt.Sprintf("((as const %s) false)", ArrSort(ks, SBool)))
		}
	case *ssa.Next:
		f.regs[x] = st.next(x)
	case *ssa.Select:
		f.regs[x] = st.sel(x)
	case *ssa.Send:
		ch := st.eval(x.Chan)
		v := st.eval(x.X)
		// ghost bookkeeping: sends[ch] counts the values THIS execution sent on ch and
		// sentv[ch][k] is the k-th of them (pointer-valued channels only); blocking,
		// buffering and the receiver are not modelled
		gs, gv := st.eng.cs.Ghosts["sends"], st.eng.cs.Ghosts["sentv"]
		if gs != nil && gv != nil && ch.Term != "" && v.S == SRef {
			_, ss := st.ghostType(gs)
			_, sv := st.ghostType(gv)
			st.frameCheckEntry(x, modEntry{kind: "ghost", name: "ghost_sends"}, "frame:"+st.eng.ordinal(f.fn, x, "send"))
			cur := st.heapGet(st.heap, "ghost_sends", ss)
			curv := st.heapGet(st.heap, "ghost_sentv", sv)
			n := app("select", cur, ch.Term)
			st.heap.m["ghost_sentv"] = st.define("ghost_sentv", app("store", curv, ch.Term, app("store", app("select", curv, ch.Term), n, v.Term)), sv)
			st.heap.m["ghost_sends"] = st.define("ghost_sends", app("store", cur, ch.Term, app("bvadd", n, bvInt(1, 64))), ss)
			st.res.note("channel send recorded in the ghosts sends/sentv (no blocking, no receiver)")
		} else {
			st.res.note("channel send treated as no-op")
		}
	case *ssa.RunDefers:
		return st.runDefers(f)
	case *ssa.Defer:
		d := deferred{call: &x.Call, instr: x}
		d.fnv = st.calleeValue(&x.Call)
		for _, a := range x.Call.Args {
			d.args = append(d.args, st.eval(a))
		}
		f.defers = append(f.defers, d)
	case *ssa.Go:
		st.goStmt(f, x)
	case *ssa.Call:
		return st.call(f, x, &x.Call, nil, false)
	case *ssa.SliceToArrayPointer:
		v := st.eval(x.X)
		n := x.Type().(*types.Pointer).Elem().Underlying().(*types.Array).Len()
		st.panicOb(x, "conv", app("bvsge", app("s_len", v.Term), bvInt(n, 64)), "slice to array pointer conversion")
		st.res.note("slice-to-array-pointer modelled as fresh object")
		f.regs[x] = st.freshValue("s2a", x.Type())
	case *ssa.MultiConvert:
		f.regs[x] = st.freshValue("mconv", x.Type())
	default:
		st.res.Errors = append(st.res.Errors, fmt.Sprintf("unsupported instruction %T at %s", ins, st.pos(ins)))
		if v, ok := ins.(ssa.Value); ok {
			f.regs[v] = st.freshValue("unsupported", v.Type())
		}
	}
	return nil
}

func fieldName(x *ssa.FieldAddr) string {
	stt := x.X.Type().Underlying().(*types.Pointer).Elem().Underlying().(*types.Struct)
	return stt.Field(x.Field).Name()
}

func mapHasName(k, v Sort) string { return "maphas_" + k.Mangle() + "__" + v.Mangle() }
func mapValName(k, v Sort) string { return "mapval_" + k.Mangle() + "__" + v.Mangle() }

func (st *State) restruct(v Value, T types.Type) Value {
	te := st.eng.te
	ns := te.SortOf(T)
	su, ok1 := v.T.Underlying().(*types.Struct)
	du, ok2 := T.Underlying().(*types.Struct)
	if ok1 && ok2 && su.NumFields() == du.NumFields() {
		var fs []string
		for i := 0; i < su.NumFields(); i++ {
			fs = append(fs, te.StructGet(v.S, i, v.Term))
		}
		return Value{T: T, S: ns, Term: te.StructMk(ns, fs)}
	}
	return st.freshValue("changetype", T)
}

func (st *State) unop(f *Frame, x *ssa.UnOp) Value {
	te := st.eng.te
	v := st.eval(x.X)
	T := x.Type()
	s := te.SortOf(T)
	switch x.Op {
	case token.MUL:
		if v.Loc != nil {
			return st.readLoc(v.Loc)
		}
		if g, ok := x.X.(*ssa.Global); ok && st.eng.constGlobal[g] {
			name := "gconst_" + mangleType(types.NewPointer(g.Type())) + "_" + g.Pkg.Pkg.Name() + "_" + g.Name()
			st.declareOnce(name, s)
			r := Value{T: T, S: s, Term: name}
			if s == SIface && (strings.HasPrefix(g.Name(), "Err") || strings.HasPrefix(g.Name(), "err") || st.eng.nonNilGlobal[g]) {
				st.assume(not(eq(app("i_tag", name), "0")))
			}
			if s == SRef && st.eng.nonNilGlobal[g] {
				st.assume(not(eq(name, nilRef)))
			}
			st.assumeWF(r)
			return r
		}
		st.panicOb(x, "nil", not(eq(v.Term, nilRef)), "nil pointer dereference (load)")
		return st.load(v.Term, T)
	case token.NOT:
		return Value{T: T, S: SBool, Term: not(v.Term)}
	case token.SUB:
		if s.IsBV() {
			return Value{T: T, S: s, Term: app("bvneg", v.Term)}
		}
	case token.XOR:
		if s.IsBV() {
			return Value{T: T, S: s, Term: app("bvnot", v.Term)}
		}
	case token.ARROW:
		st.res.note("channel receive yields an arbitrary value")
		st.countRecv(v, "true")
		return st.freshValue("recv", T)
	}
	return st.freshValue("unop", T)
}

func (st *State) binop(ins ssa.Instruction, op token.Token, a, b Value, T types.Type) Value {
	te := st.eng.te
	s := te.SortOf(T)
	mk := func(t string) Value { return Value{T: T, S: s, Term: st.define("b", t, s)} }
	os := a.S
	switch op {
	case token.EQL, token.NEQ:
		var t string
		if a.S == SSlice || b.S == SSlice {
			// comparison with nil only
			x := a
			if strings.Contains(a.Term, nilSlice) && a.Term == nilSlice {
				x = b
			}
			t = eq(app("s_ref", x.Term), nilRef)
		} else if a.Term == "" || b.Term == "" {
			// function values: only nil comparison is legal
			x := a
			if a.Term == nilRef {
				x = b
			}
			if x.Fn != nil {
				t = "false"
			} else {
				t = eq(st.materialize(a), st.materialize(b))
			}
		} else {
			t = eq(a.Term, b.Term)
		}
		if op == token.NEQ {
			t = not(t)
		}
		return mk(t)
	}
	if os == SStr {
		switch op {
		case token.ADD:
			r := app("str_cat", a.Term, b.Term)
			v := mk(r)
			st.assume(eq(app("slen", v.Term), app("bvadd", app("slen", a.Term), app("slen", b.Term))))
			return v
		case token.LSS:
			return mk(app("str_lt", a.Term, b.Term))
		case token.GTR:
			return mk(app("str_lt", b.Term, a.Term))
		case token.LEQ:
			return mk(not(app("str_lt", b.Term, a.Term)))
		case token.GEQ:
			return mk(not(app("str_lt", a.Term, b.Term)))
		}
	}
	if os.IsBV() {
		signed := isSigned(a.T)
		bits := os.Bits()
		switch op {
		case token.ADD:
			return mk(app("bvadd", a.Term, b.Term))
		case token.SUB:
			return mk(app("bvsub", a.Term, b.Term))
		case token.MUL:
			return mk(app("bvmul", a.Term, b.Term))
		case token.QUO, token.REM:
			st.panicOb(ins, "div", not(eq(b.Term, bvInt(0, bits))), "integer divide by zero")
			o := map[bool]map[token.Token]string{true: {token.QUO: "bvsdiv", token.REM: "bvsrem"}, false: {token.QUO: "bvudiv", token.REM: "bvurem"}}[signed][op]
			return mk(app(o, a.Term, b.Term))
		case token.AND:
			return mk(app("bvand", a.Term, b.Term))
		case token.OR:
			return mk(app("bvor", a.Term, b.Term))
		case token.XOR:
			return mk(app("bvxor", a.Term, b.Term))
		case token.AND_NOT:
			return mk(app("bvand", a.Term, app("bvnot", b.Term)))
		case token.SHL, token.SHR:
			cnt := b.Term
			cb := b.S.Bits()
			if isSigned(b.T) {
				st.panicOb(ins, "shift", app("bvsge", cnt, bvInt(0, cb)), "negative shift amount")
			}
			// bring the count to the operand width, saturating
			var c2 string
			switch {
			case cb == bits:
				c2 = cnt
			case cb < bits:
				c2 = app(fmt.Sprintf("(_ zero_extend %d)", bits-cb), cnt)
			default:
				big := app("bvuge", cnt, bvInt(int64(bits), cb))
				c2 = ite(big, bvInt(int64(bits), bits), app(fmt.Sprintf("(_ extract %d 0)", bits-1), cnt))
			}
			o := "bvshl"
			if op == token.SHR {
				o = "bvlshr"
				if signed {
					o = "bvashr"
				}
			}
			return mk(app(o, a.Term, c2))
		case token.LSS, token.LEQ, token.GTR, token.GEQ:
			o := map[token.Token]string{token.LSS: "lt", token.LEQ: "le", token.GTR: "gt", token.GEQ: "ge"}[op]
			if signed {
				o = "bvs" + o
			} else {
				o = "bvu" + o
			}
			return mk(app(o, a.Term, b.Term))
		}
	}
	if os == SBool {
		switch op {
		case token.AND, token.LAND:
			return mk(and(a.Term, b.Term))
		case token.OR, token.LOR:
			return mk(or(a.Term, b.Term))
		}
	}
	if os == SFloat {
		switch op {
		case token.LSS, token.LEQ, token.GTR, token.GEQ:
			st.eng.pre.Fun("float_lt", "(Float Float) Bool")
			switch op {
			case token.LSS:
				return mk(app("float_lt", a.Term, b.Term))
			case token.GTR:
				return mk(app("float_lt", b.Term, a.Term))
			case token.LEQ:
				return mk(not(app("float_lt", b.Term, a.Term)))
			case token.GEQ:
				return mk(not(app("float_lt", a.Term, b.Term)))
			}
		default:
			n := "float_" + strings.ToLower(op.String())
			n = map[string]string{"float_+": "float_add", "float_-": "float_sub", "float_*": "float_mul", "float_/": "float_div"}[n]
			if n != "" {
				st.eng.pre.Fun(n, "(Float Float) Float")
				return mk(app(n, a.Term, b.Term))
			}
		}
	}
	st.res.note(fmt.Sprintf("binop %s on %s havocked", op, os))
	return st.freshValue("binop", T)
}

func (st *State) convert(v Value, from, to types.Type) Value {
	te := st.eng.te
	fs, ts := te.SortOf(from), te.SortOf(to)
	if fs.IsBV() && ts.IsBV() {
		fb, tb := fs.Bits(), ts.Bits()
		var t string
		switch {
		case fb == tb:
			t = v.Term
		case fb > tb:
			t = app(fmt.Sprintf("(_ extract %d 0)", tb-1), v.Term)
		case isSigned(from):
			t = app(fmt.Sprintf("(_ sign_extend %d)", tb-fb), v.Term)
		default:
			t = app(fmt.Sprintf("(_ zero_extend %d)", tb-fb), v.Term)
		}
		return Value{T: to, S: ts, Term: t}
	}
	if fs == ts && fs != SSlice {
		return Value{T: to, S: ts, Term: v.Term}
	}
	if fs == SSlice && ts == SStr {
		// string(bytes)
		return Value{T: to, S: SStr, Term: app("bytes_str", st.bytesOf(st.heap, v))}
	}
	if fs == SStr && ts == SSlice {
		// []byte(s): fresh backing array whose content is the string's bytes
		r := st.newObject()
		ln := app("slen", v.Term)
		sl := Value{T: to, S: SSlice, Term: app("mk_slice", r, bvInt(0, 64), ln, ln)}
		if sl2 := to.Underlying().(*types.Slice); te.SortOf(sl2.Elem()) == BV(8) {
			st.assume(eq(st.bytesOf(st.heap, sl), app("str_bytes", v.Term)))
		}
		return sl
	}
	if fs == SSlice && ts == SSlice {
		return Value{T: to, S: ts, Term: v.Term}
	}
	if fs.IsBV() && ts == SStr {
		return st.freshValue("runestr", to)
	}
	name := "conv_" + fs.Mangle() + "_to_" + ts.Mangle()
	st.eng.pre.Fun(name, fmt.Sprintf("(%s) %s", fs, ts))
	return Value{T: to, S: ts, Term: app(name, v.Term)}
}

// bytesOf: abstract byte string held by a []byte slice (or string).
func (st *State) bytesOf(h *Heap, v Value) string {
	if v.S == SStr {
		return app("str_bytes", v.Term)
	}
	if v.S == SBytes {
		return v.Term
	}
	arr := st.elemsArr(h, BV(8))
	return app("bseq", app("select", arr, app("s_ref", v.Term)), app("s_off", v.Term), app("s_len", v.Term))
}

func (st *State) makeInterface(v Value, from, to types.Type) Value {
	te := st.eng.te
	id := te.TypeID(from)
	var ref string
	if v.S == SRef {
		ref = v.Term
		if ref == "" {
			ref = st.materialize(v)
		}
	} else {
		box := "box_" + v.S.Mangle()
		unbox := "unbox_" + v.S.Mangle()
		st.eng.pre.Fun(box, fmt.Sprintf("(%s) Ref", v.S))
		st.eng.pre.Fun(unbox, fmt.Sprintf("(Ref) %s", v.S))
		ref = app(box, v.Term)
		st.assume(eq(app(unbox, ref), v.Term))
	}
	return Value{T: to, S: SIface, Term: fmt.Sprintf("(mk_iface %d %s)", id, ref)}
}

func (st *State) typeAssert(x *ssa.TypeAssert) Value {
	te := st.eng.te
	v := st.eval(x.X)
	T := x.AssertedType
	var ok string
	var val Value
	if _, isIface := T.Underlying().(*types.Interface); isIface {
		okc := st.fresh("ta_ok", SBool)
		st.assume(imp(okc, not(eq(app("i_tag", v.Term), "0"))))
		// static knowledge: if the dynamic type is a known concrete type that implements T
		ok = okc
		val = Value{T: T, S: SIface, Term: ite(ok, v.Term, nilIface)}
	} else {
		id := te.TypeID(T)
		ok = eq(app("i_tag", v.Term), fmt.Sprintf("%d", id))
		s := te.SortOf(T)
		if s == SRef {
			val = Value{T: T, S: s, Term: app("i_ref", v.Term)}
		} else {
			unbox := "unbox_" + s.Mangle()
			st.eng.pre.Fun("box_"+s.Mangle(), fmt.Sprintf("(%s) Ref", s))
			st.eng.pre.Fun(unbox, fmt.Sprintf("(Ref) %s", s))
			val = Value{T: T, S: s, Term: app(unbox, app("i_ref", v.Term))}
		}
		if x.CommaOk {
			val.Term = ite(ok, val.Term, te.Zero(T))
		}
	}
	if x.CommaOk {
		return Value{T: x.Type(), S: "Tuple", Tuple: []Value{val, {T: types.Typ[types.Bool], S: SBool, Term: ok}}}
	}
	st.panicOb(x, "assert", ok, "type assertion to "+typeStr(T))
	st.assumeWF(val)
	return val
}

func (st *State) indexAddr(x *ssa.IndexAddr) Value {
	te := st.eng.te
	base := st.eval(x.X)
	idx := st.eval(x.Index)
	i64 := st.toInt64(idx, x.Index.Type())
	switch u := x.X.Type().Underlying().(type) {
	case *types.Slice:
		ln := app("s_len", base.Term)
		st.panicOb(x, "index", and(app("bvsle", bvInt(0, 64), i64), app("bvslt", i64, ln)), "index out of range")
		return Value{T: x.Type(), S: SRef, Term: elemAddr(app("s_ref", base.Term), st.define("ix", app("bvadd", app("s_off", base.Term), i64), BV(64)))}
	case *types.Pointer:
		at := u.Elem().Underlying().(*types.Array)
		n := bvInt(at.Len(), 64)
		if base.Loc != nil {
			st.panicOb(x, "index", and(app("bvsle", bvInt(0, 64), i64), app("bvslt", i64, n)), "index out of range")
			nl := &Loc{Cell: base.Loc.Cell, Path: append(append([]step(nil), base.Loc.Path...), step{field: -1, index: i64, T: at.Elem()})}
			return Value{T: x.Type(), S: SRef, Loc: nl}
		}
		st.panicOb(x, "nil", not(eq(base.Term, nilRef)), "nil pointer dereference (array)")
		st.panicOb(x, "index", and(app("bvsle", bvInt(0, 64), i64), app("bvslt", i64, n)), "index out of range")
		return Value{T: x.Type(), S: SRef, Term: elemAddr(base.Term, i64)}
	}
	_ = te
	return st.freshValue("indexaddr", x.Type())
}

func (st *State) toInt64(v Value, T types.Type) string {
	if !v.S.IsBV() {
		return v.Term
	}
	b := v.S.Bits()
	if b == 64 {
		return v.Term
	}
	if isSigned(T) {
		return app(fmt.Sprintf("(_ sign_extend %d)", 64-b), v.Term)
	}
	return app(fmt.Sprintf("(_ zero_extend %d)", 64-b), v.Term)
}

func (st *State) index(x *ssa.Index) Value {
	te := st.eng.te
	base := st.eval(x.X)
	idx := st.eval(x.Index)
	i64 := st.toInt64(idx, x.Index.Type())
	unsignedBig := !isSigned(x.Index.Type()) && idx.S.IsBV() && idx.S.Bits() == 64
	inb := func(n string) string {
		if unsignedBig {
			return app("bvult", i64, n)
		}
		return and(app("bvsle", bvInt(0, 64), i64), app("bvslt", i64, n))
	}
	switch u := x.X.Type().Underlying().(type) {
	case *types.Array:
		st.panicOb(x, "index", inb(bvInt(u.Len(), 64)), "index out of range")
		return Value{T: x.Type(), S: te.SortOf(x.Type()), Term: app("select", base.Term, i64)}
	case *types.Basic: // string
		st.panicOb(x, "index", inb(app("slen", base.Term)), "string index out of range")
		return Value{T: x.Type(), S: BV(8), Term: app("str_at", base.Term, i64)}
	}
	return st.freshValue("index", x.Type())
}

func (st *State) slice(x *ssa.Slice) Value {
	base := st.eval(x.X)
	var lo, hi, mx string
	get := func(v ssa.Value) string {
		if v == nil {
			return ""
		}
		return st.toInt64(st.eval(v), v.Type())
	}
	lo, hi, mx = get(x.Low), get(x.High), get(x.Max)
	zero := bvInt(0, 64)
	if lo == "" {
		lo = zero
	}
	switch u := x.X.Type().Underlying().(type) {
	case *types.Slice:
		cp := app("s_cap", base.Term)
		if hi == "" {
			hi = app("s_len", base.Term)
		}
		bound := cp
		if mx != "" {
			bound = mx
		}
		g := and(app("bvsle", zero, lo), app("bvsle", lo, hi), app("bvsle", hi, bound))
		if mx != "" {
			g = and(g, app("bvsle", mx, cp))
		}
		st.panicOb(x, "slice", g, "slice bounds out of range")
		nl := st.define("sl", app("bvsub", hi, lo), BV(64))
		nc := st.define("sc", app("bvsub", bound, lo), BV(64))
		no := st.define("so", app("bvadd", app("s_off", base.Term), lo), BV(64))
		return Value{T: x.Type(), S: SSlice, Term: app("mk_slice", app("s_ref", base.Term), no, nl, nc)}
	case *types.Basic: // string
		ln := app("slen", base.Term)
		if hi == "" {
			hi = ln
		}
		st.panicOb(x, "slice", and(app("bvsle", zero, lo), app("bvsle", lo, hi), app("bvsle", hi, ln)), "string slice bounds out of range")
		r := Value{T: x.Type(), S: SStr, Term: st.define("ss", app("str_sub", base.Term, lo, hi), SStr)}
		st.assume(eq(app("slen", r.Term), app("bvsub", hi, lo)))
		return r
	case *types.Pointer: // *array
		at := u.Elem().Underlying().(*types.Array)
		n := bvInt(at.Len(), 64)
		if hi == "" {
			hi = n
		}
		bound := n
		if mx != "" {
			bound = mx
		}
		g := and(app("bvsle", zero, lo), app("bvsle", lo, hi), app("bvsle", hi, bound))
		if mx != "" {
			g = and(g, app("bvsle", mx, n))
		}
		var ref string
		if base.Loc != nil {
			// slicing a local array: move it to the heap (copy)
			ref = st.newObject()
			cur := st.readLoc(base.Loc)
			st.storeMem(ref, u.Elem(), cur)
			st.res.note("slice of local array modelled as a heap copy")
		} else {
			st.panicOb(x, "nil", not(eq(base.Term, nilRef)), "nil pointer dereference (slice of array)")
			ref = base.Term
		}
		st.panicOb(x, "slice", g, "slice bounds out of range")
		return Value{T: x.Type(), S: SSlice, Term: app("mk_slice", ref, lo, st.define("sl", app("bvsub", hi, lo), BV(64)), st.define("sc", app("bvsub", bound, lo), BV(64)))}
	}
	return st.freshValue("slice", x.Type())
}

func (st *State) mapArrays(h *Heap, mt *types.Map) (has, val string, ks, vs Sort) {
	te := st.eng.te
	ks, vs = te.SortOf(mt.Key()), te.SortOf(mt.Elem())
	has = st.heapGet(h, mapHasName(ks, vs), ArrSort(SRef, ArrSort(ks, SBool)))
	val = st.heapGet(h, mapValName(ks, vs), ArrSort(SRef, ArrSort(ks, vs)))
	return
}

func (st *State) mapLookupH(h *Heap, m Value, mt *types.Map, key string) (has string, val Value) {
	te := st.eng.te
	hasA, valA, _, vs := st.mapArrays(h, mt)
	has = and(not(eq(m.Term, nilRef)), app("select", app("select", hasA, m.Term), key))
	raw := app("select", app("select", valA, m.Term), key)
	val = Value{T: mt.Elem(), S: vs, Term: ite(has, raw, te.Zero(mt.Elem()))}
	return
}

func (st *State) lookup(x *ssa.Lookup) Value {
	m := st.eval(x.X)
	k := st.eval(x.Index)
	switch u := x.X.Type().Underlying().(type) {
	case *types.Map:
		has, val := st.mapLookupH(st.heap, m, u, k.Term)
		has = st.define("has", has, SBool)
		val.Term = st.define("mv", val.Term, val.S)
		st.mapWitness = append(st.mapWitness[:len(st.mapWitness):len(st.mapWitness)], mapWit{m: m.Term, k: k, v: val, cond: has})
		st.assumeWF(val)
		if x.CommaOk {
			return Value{T: x.Type(), S: "Tuple", Tuple: []Value{val, {T: types.Typ[types.Bool], S: SBool, Term: has}}}
		}
		return val
	case *types.Basic:
		i64 := st.toInt64(k, x.Index.Type())
		st.panicOb(x, "index", and(app("bvsle", bvInt(0, 64), i64), app("bvslt", i64, app("slen", m.Term))), "string index out of range")
		return Value{T: x.Type(), S: BV(8), Term: app("str_at", m.Term, i64)}
	}
	return st.freshValue("lookup", x.Type())
}

func (st *State) mapUpdate(x *ssa.MapUpdate) {
	m := st.eval(x.Map)
	k := st.eval(x.Key)
	v := st.eval(x.Value)
	mt := x.Map.Type().Underlying().(*types.Map)
	st.panicOb(x, "nilmap", not(eq(m.Term, nilRef)), "assignment to entry in nil map")
	st.frameCheckMap(x, m.Term)
	hasA, valA, ks, vs := st.mapArrays(st.heap, mt)
	vt := v.Term
	if vt == "" {
		vt = st.materialize(v)
	}
	st.heapSet(mapHasName(ks, vs), ArrSort(SRef, ArrSort(ks, SBool)), app("store", hasA, m.Term, app("store", app("select", hasA, m.Term), k.Term, "true")))
	st.heapSet(mapValName(ks, vs), ArrSort(SRef, ArrSort(ks, vs)), app("store", valA, m.Term, app("store", app("select", valA, m.Term), k.Term, vt)))
	ml := st.heapGet(st.heap, "maplen", ArrSort(SRef, BV(64)))
	nl := st.fresh("maplen", BV(64))
	st.assume(app("bvsge", nl, bvInt(1, 64)))
	st.heapSet("maplen", ArrSort(SRef, BV(64)), app("store", ml, m.Term, nl))
}

func (st *State) makeSlice(x *ssa.MakeSlice) Value {
	te := st.eng.te
	ln := st.toInt64(st.eval(x.Len), x.Len.Type())
	cp := st.toInt64(st.eval(x.Cap), x.Cap.Type())
	max := bvInt(1<<40, 64)
	st.panicOb(x, "makelen", and(app("bvsle", bvInt(0, 64), ln), app("bvsle", ln, cp), app("bvsle", cp, max)), "makeslice: len/cap out of range (or above the modelled 2^40 bound)")
	r := st.newObject()
	et := x.Type().Underlying().(*types.Slice).Elem()
	es := te.SortOf(et)
	arr := st.elemsArr(st.heap, es)
	st.heapSet(elemsName(es), ArrSort(SRef, ArrSort(BV(64), es)), app("store", arr, r, fmt.Sprintf("((as const %s) %s)", ArrSort(BV(64), es), te.Zero(et))))
	return Value{T: x.Type(), S: SSlice, Term: app("mk_slice", r, bvInt(0, 64), ln, cp)}
}

func (st *State) next(x *ssa.Next) Value {
	it := st.eval(x.Iter)
	tup := x.Type().(*types.Tuple)
	ok := st.fresh("next_ok", SBool)
	okv := Value{T: types.Typ[types.Bool], S: SBool, Term: ok}
	if it.Range == nil {
		return Value{T: x.Type(), S: "Tuple", Tuple: []Value{okv, st.freshValue("k", tup.At(1).Type()), st.freshValue("v", tup.At(2).Type())}}
	}
	if it.Range.kind == "string" {
		k := st.freshValue("ri", types.Typ[types.Int])
		st.assume(imp(ok, and(app("bvsle", bvInt(0, 64), k.Term), app("bvslt", k.Term, app("slen", it.Range.over.Term)))))
		return Value{T: x.Type(), S: "Tuple", Tuple: []Value{okv, k, st.freshValue("rr", types.Typ[types.Rune])}}
	}
	mt := it.Range.over.T.Underlying().(*types.Map)
	k := st.freshValue("rk", mt.Key())
	has, val := st.mapLookupH(st.heap, it.Range.over, mt, k.Term)
	st.assume(imp(ok, has))
	if vis, tracked := st.rangeVis[it.Range]; tracked {
		// every key is delivered exactly once; when the iteration ends, every key was delivered
		st.assume(imp(ok, not(app("select", vis, k.Term))))
		qk := "tq_rk"
		hasQ, _ := st.mapLookupH(st.heap, it.Range.over, mt, qk)
		st.assume(imp(not(ok), fmt.Sprintf("(forall ((%s %s)) (! (=> %s (select %s %s)) :pattern ((select %s %s))))", qk, it.Range.keySort, hasQ, vis, qk, vis, qk)))
		st.setVis(it.Range, st.define("visited", ite(ok, app("store", vis, k.Term, "true"), vis), ArrSort(it.Range.keySort, SBool)))
	}
	val.Term = st.define("rv", val.Term, val.S)
	st.mapWitness = append(st.mapWitness[:len(st.mapWitness):len(st.mapWitness)], mapWit{m: it.Range.over.Term, k: k, v: val, cond: ok})
	st.assumeWF(val)
	kk, vv := k, val
	if !isInvalid(tup.At(1).Type()) {
		kk.T = mt.Key()
	}
	return Value{T: x.Type(), S: "Tuple", Tuple: []Value{okv, kk, vv}}
}

func isInvalid(t types.Type) bool {
	b, ok := t.(*types.Basic)
	return ok && b.Kind() == types.Invalid
}

func (st *State) sel(x *ssa.Select) Value {
	tup := x.Type().(*types.Tuple)
	idx := st.freshValue("sel_idx", types.Typ[types.Int])
	lo := int64(0)
	if !x.Blocking {
		lo = -1
	}
	st.assume(and(app("bvsle", bvInt(lo, 64), idx.Term), app("bvslt", idx.Term, bvInt(int64(len(x.States)), 64))))
	vs := []Value{idx, st.freshValue("sel_ok", types.Typ[types.Bool])}
	for i := 2; i < tup.Len(); i++ {
		vs = append(vs, st.freshValue("sel_recv", tup.At(i).Type()))
	}
	st.res.note("select modelled as nondeterministic choice with arbitrary received values")
	// ghost bookkeeping: recvs[ch] counts the values THIS execution received from ch
	for i, s := range x.States {
		if s.Dir == types.RecvOnly {
			st.countRecv(st.eval(s.Chan), eq(idx.Term, bvInt(int64(i), 64)))
		}
	}
	return Value{T: x.Type(), S: "Tuple", Tuple: vs}
}

// countRecv bumps the ghost array recvs at channel ch when cond holds (if the ghost is declared).
func (st *State) countRecv(ch Value, cond string) {
	g := st.eng.cs.Ghosts["recvs"]
	if g == nil || ch.Term == "" {
		return
	}
	_, s := st.ghostType(g)
	cur := st.heapGet(st.heap, "ghost_recvs", s)
	upd := app("store", cur, ch.Term, app("+", app("select", cur, ch.Term), "1"))
	if cond != "true" {
		upd = ite(cond, upd, cur)
	}
	st.heap.m["ghost_recvs"] = st.define("ghost_recvs", upd, s)
}
