package main

import (
	"fmt"
	"go/types"
	"os"
	"sort"
	"strings"
	"time"

	"golang.org/x/tools/go/ssa"
)

// allFunctions lists the source functions (incl. methods and closures) of the module packages matching filter.
func allFunctions(eng *Engine, filter string) []*ssa.Function {
	var out []*ssa.Function
	seen := map[*ssa.Function]bool{}
	var add func(f *ssa.Function)
	add = func(f *ssa.Function) {
		if f == nil || seen[f] || f.Blocks == nil || f.Synthetic != "" {
			return
		}
		seen[f] = true
		out = append(out, f)
		for _, a := range f.AnonFuncs {
			add(a)
		}
	}
	for path, sp := range eng.prog.SSAPkgs {
		if !strings.HasPrefix(path, modPath) || strings.HasSuffix(path, "/rocksdb") {
			continue
		}
		if filter != "" && !strings.Contains(path, filter) {
			continue
		}
		for _, mem := range sp.Members {
			switch m := mem.(type) {
			case *ssa.Function:
				add(m)
			case *ssa.Type:
				for _, T := range []types.Type{m.Type(), types.NewPointer(m.Type())} {
					ms := eng.prog.SSA.MethodSets.MethodSet(T)
					for i := 0; i < ms.Len(); i++ {
						add(eng.prog.SSA.MethodValue(ms.At(i)))
					}
				}
			}
		}
	}
	sort.Slice(out, func(i, j int) bool { return fnKey(out[i]) < fnKey(out[j]) })
	return out
}

// runSweep: zero-annotation safety sweep (engine shake-out and defect hunting; not a registered check).
func runSweep(filter string, discharge bool, verbose bool) {
	prog, err := Load(nil)
	if err != nil {
		fmt.Println(err)
		os.Exit(2)
	}
	cs := LoadContracts("/verif")
	eng := NewEngine(prog, cs)
	for _, w := range eng.Warnings {
		fmt.Println("WARNING:", w)
	}
	fns := allFunctions(eng, filter)
	tmp, _ := os.MkdirTemp("", "qedvc-sweep-")
	defer os.RemoveAll(tmp)
	nErr, nVC, nFail := 0, 0, 0
	errKinds := map[string]int{}
	for _, fn := range fns {
		c := eng.fnContract[fn]
		if c == nil {
			c = &Contract{Loops: map[int]*LoopSpec{}, MayPanic: false}
		}
		t0 := time.Now()
		r := eng.Verify(fn, c)
		dt := time.Since(t0).Seconds()
		nVC += len(r.VCs)
		if len(r.Errors) > 0 {
			nErr++
			for _, e := range uniq(r.Errors) {
				k := e
				if len(k) > 60 {
					k = k[:60]
				}
				errKinds[k]++
			}
			fmt.Printf("ERR  %-70s paths=%d vcs=%d %.1fs :: %s\n", r.Key, r.Paths, len(r.VCs), dt, strings.Join(uniq(r.Errors), " | "))
			continue
		}
		failed := 0
		if discharge {
			var todo []*VC
			for _, vc := range r.VCs {
				if vc.Result == "" && (vc.Kind == "panic" || vc.Kind == "pre") {
					todo = append(todo, vc)
				}
			}
			DischargeAll(todo, eng.pre.Text(), tmp, 5, false, 16)
			for _, vc := range todo {
				if vc.Result != "unsat" {
					failed++
					if verbose {
						fmt.Printf("     FAIL %s#%s %s [%s]\n", r.Key, vc.Name, vc.Result, vc.Note)
					}
				}
			}
		}
		nFail += failed
		fmt.Printf("OK   %-70s paths=%d vcs=%d failed=%d %.1fs\n", r.Key, r.Paths, len(r.VCs), failed, dt)
	}
	fmt.Printf("sweep: %d functions, %d with engine errors, %d VCs, %d failed\n", len(fns), nErr, nVC, nFail)
	for k, v := range errKinds {
		fmt.Printf("  %4d  %s\n", v, k)
	}
}
