package main

// Callback iteration: a higher-order callee whose contract says
//     iterates f over x where P(x)
// calls its function argument f any number of times, each time with some x
// satisfying P. At a call site that passes a known closure this is treated like
// a loop whose body is the closure: the caller's contract may give an invariant
//     call <n> invariant I
// which is established before the call, assumed after it, and must be preserved
// by one arbitrary invocation of the closure (executed symbolically, inline).

import (
	"fmt"
	"os"
	"go/types"
	"strings"

	"golang.org/x/tools/go/ssa"
)

type iterCheck struct {
	invs     []*Clause
	callerIx int
	k        int
	name     string
}

// iterateCallbacks handles the `iterates` clauses of contract c at a call site.
func (st *State) iterateCallbacks(f *Frame, ins ssa.Instruction, c *Contract, names []string, args []Value, calleeEnv *specEnv, name, ord string) {
	var k int
	fmt.Sscanf(strings.TrimPrefix(ord, "call@"), "%d", &k)
	var invs []*Clause
	if cc := st.frames[0].contract; cc != nil && f == st.frames[0] {
		invs = cc.CallInvs[k]
	} else if cc := st.eng.fnContract[f.fn]; cc != nil {
		invs = cc.CallInvs[k]
	}
	for _, it := range c.Iterates {
		idx := -1
		for i, n := range names {
			if n == it.Param {
				idx = i
			}
		}
		if idx < 0 || idx >= len(args) || args[idx].Fn == nil {
			st.frameCheckEntry(ins, modEntry{kind: "all"}, "frame:callback-"+ord)
			st.havocAll("callback " + it.Param + " of " + name + " is not a known closure")
			continue
		}
		cv := args[idx]
		cfn := cv.Fn
		// establish the invariant
		env := st.specEnv(f, nil, false)
		for i, inv := range invs {
			t := st.evalBool(inv.Expr, env, inv)
			st.oblige("inv-init", fmt.Sprintf("inv-init:call#%d:%s", k, clauseLabel(inv, i)), t, inv.Src+"  [callback iteration at "+st.pos(ins)+"]")
		}
		// forget what the closure may change (earlier invocations may have allocated objects)
		nt := st.fresh("top", SInt)
		st.assume(app(">=", nt, st.allocTop))
		st.allocTop = nt
		st.havocWrittenBy(f, cfn, cv)
		env = st.specEnv(f, nil, false)
		for _, inv := range invs {
			st.assume(st.evalBool(inv.Expr, env, inv))
		}
		// one arbitrary invocation
		one := st.clone()
		of := one.top()
		if len(cfn.Params) >= 1 {
			elem := one.freshValue("it_"+it.Var, cfn.Params[0].Type())
			wenv := *calleeEnv
			wenv.st = one
			wenv.heap, wenv.old = one.heap, one.heap
			wenv.vars = map[string]Value{}
			for kk, vv := range calleeEnv.vars {
				wenv.vars[kk] = vv
			}
			wenv.vars[it.Var] = elem
			wenv.oldVars = wenv.vars
			one.assume(one.evalBool(it.Where, &wenv, &Clause{Src: it.Src, File: c.File, Line: c.Line}))
			nf := one.newFrame(cfn, nil)
			nf.regs[cfn.Params[0]] = elem
			nf.params = []Value{elem}
			for i := 1; i < len(cfn.Params); i++ {
				v := one.freshValue("it_arg", cfn.Params[i].Type())
				nf.regs[cfn.Params[i]] = v
				nf.params = append(nf.params, v)
			}
			for i, fv := range cfn.FreeVars {
				if i < len(cv.Bind) {
					nf.fvCells[fv] = cv.Bind[i]
				}
			}
			nf.retTo = ins
			nf.discard = true
			nf.inlTag = of.inlTag + "cb:" + shortName(cfn) + "@" + strings.TrimPrefix(ord, "call@") + ":"
			nf.iter = &iterCheck{invs: invs, callerIx: len(one.frames) - 1, k: k, name: name}
			one.frames = append(one.frames, nf)
			st.pendingForks = append(st.pendingForks, one)
		}
	}
}

// havocWrittenBy forgets the captured cells and heap locations closure fn writes.
func (st *State) havocWrittenBy(f *Frame, fn *ssa.Function, cv Value) {
	memSorts := map[string]Sort{}
	heapAll := false
	for _, b := range fn.Blocks {
		for _, ins := range b.Instrs {
			switch x := ins.(type) {
			case *ssa.Store:
				if fv := rootFreeVar(x.Addr); fv != nil {
					for i, v := range fn.FreeVars {
						if v == fv && i < len(cv.Bind) && cv.Bind[i].Loc != nil {
							c := cv.Bind[i].Loc.Cell
							st.cellVals[c] = st.freshValue("hv_"+c.Name, c.T)
						}
					}
					continue
				}
				if al := rootAlloc(x.Addr); al != nil && st.eng.cellable(al) {
					continue // the closure's own locals
				}
				st.sortsOfStore(x.Val.Type(), memSorts)
			case *ssa.MapUpdate:
				heapAll = true
			case ssa.CallInstruction:
				cc := x.Common()
				if b, ok := cc.Value.(*ssa.Builtin); ok {
					if b.Name() == "copy" || b.Name() == "delete" {
						heapAll = true
					}
					continue
				}
				callee := cc.StaticCallee()
				var c *Contract
				if callee != nil {
					c = st.eng.fnContract[callee]
				} else if cc.IsInvoke() {
					c = st.eng.methContract[cc.Method]
				}
				if c != nil && len(c.Modifies) == 0 {
					continue
				}
				if callee != nil && st.eng.isPureFn(callee) {
					continue
				}
				heapAll = true
			}
		}
	}
	if heapAll {
		st.frameCheckEntry(f.block.Instrs[0], modEntry{kind: "all"}, "frame:callback-body")
		st.havocAll("callback " + fn.Name() + " has effects without a frame")
		return
	}
	for name, s := range memSorts {
		_ = st.heapGet(st.heap, name, s)
		st.heap.m[name] = st.fresh(name, s)
	}
}

// iterReturn is called when the closure frame of a callback iteration returns.
func (st *State) iterReturn(f *Frame) {
	ic := f.iter
	caller := st.frames[ic.callerIx]
	env := st.specEnv(caller, nil, false)
	for i, inv := range ic.invs {
		t := st.evalBool(inv.Expr, env, inv)
		st.oblige("inv-pres", fmt.Sprintf("inv-pres:call#%d:%s", ic.k, clauseLabel(inv, i)), t, inv.Src+"  [after one invocation of the callback passed to "+ic.name+"]")
	}
	st.dead = true
}

var _ = types.Typ

// readOnlyFn: a syntactic sufficient condition for "calling fn changes nothing the caller
// can observe": no store except to its own local cells, no map update, no send, no go/defer,
// and it only calls builtins (len, cap), functions declared pure, or module functions that
// are read-only themselves (depth-limited).
func (e *Engine) readOnlyFn(fn *ssa.Function, depth int) bool {
	if fn == nil || len(fn.Blocks) == 0 || depth > 3 {
		return false
	}
	for _, b := range fn.Blocks {
		for _, ins := range b.Instrs {
			switch x := ins.(type) {
			case *ssa.Store:
				if al := rootAlloc(x.Addr); al != nil && al.Parent() == fn && !al.Heap {
					continue
				}
				if os.Getenv("QEDVC_DEBUG") != "" {
					fmt.Fprintln(os.Stderr, "readOnlyFn:", fn.Name(), "store", x)
				}
				return false
			case *ssa.MapUpdate, *ssa.Send, *ssa.Go, *ssa.Defer, *ssa.Select:
				if os.Getenv("QEDVC_DEBUG") != "" {
					fmt.Fprintln(os.Stderr, "readOnlyFn:", fn.Name(), "effect", x)
				}
				return false
			case *ssa.Call:
				if os.Getenv("QEDVC_DEBUG") != "" {
					fmt.Fprintln(os.Stderr, "readOnlyFn:", fn.Name(), "call", x)
				}
				cc := x.Common()
				if bi, ok := cc.Value.(*ssa.Builtin); ok {
					switch bi.Name() {
					case "len", "cap", "ssa:deferstack", "ssa:wrapnilchk":
						continue
					}
					return false
				}
				callee := cc.StaticCallee()
				if callee == nil {
					return false
				}
				if e.isPureFn(callee) {
					continue
				}
				if c := e.fnContract[callee]; c != nil {
					// (a trusted contract without a modifies clause is applied as "changes nothing" at
					// every call site: the same is taken here)
					if len(c.Modifies) == 0 {
						continue
					}
					return false
				}
				if !e.readOnlyFn(callee, depth+1) {
					return false
				}
			}
		}
	}
	return true
}
