package main

// The check driver: select the functions a property depends on, generate and
// discharge their obligations, classify failures (known finding / violation /
// undecided), write evidence.

import (
	"encoding/json"
	"fmt"
	"os"
	"path/filepath"
	"sort"
	"strings"
	"time"

	"golang.org/x/tools/go/ssa"
)

type Finding struct {
	Prop string
	Ob   string // func#obligation
	What string
}

type KnownFindings struct {
	Findings []Finding
	Fixed    []string
}

func LoadKnownFindings(path string) *KnownFindings {
	kf := &KnownFindings{}
	b, err := os.ReadFile(path)
	if err != nil {
		return kf
	}
	for _, l := range strings.Split(string(b), "\n") {
		l = strings.TrimSpace(l)
		if l == "" || strings.HasPrefix(l, "#") {
			continue
		}
		if strings.HasPrefix(l, "fixed:") {
			kf.Fixed = append(kf.Fixed, l)
			continue
		}
		// <prop> <func#obligation> :: what
		parts := strings.SplitN(l, "::", 2)
		f := strings.Fields(parts[0])
		if len(f) < 2 {
			continue
		}
		what := ""
		if len(parts) == 2 {
			what = strings.TrimSpace(parts[1])
		}
		kf.Findings = append(kf.Findings, Finding{Prop: f[0], Ob: f[1], What: what})
	}
	return kf
}

func (kf *KnownFindings) Match(prop, ob string) *Finding {
	for i := range kf.Findings {
		f := &kf.Findings[i]
		if f.Prop == prop && f.Ob == ob {
			return f
		}
	}
	return nil
}

type ObResult struct {
	Name    string   `json:"obligation"`
	Kind    string   `json:"kind"`
	Result  string   `json:"result"`
	Solver  string   `json:"solver,omitempty"`
	VCs     int      `json:"path_vcs"`
	Seconds float64  `json:"solver_s"`
	Note    string   `json:"note,omitempty"`
	failing []*VC
}

type CheckOutput struct {
	Violations int
	Known      int
	Undecided  int
}

func containsStr(xs []string, s string) bool {
	for _, x := range xs {
		if x == s {
			return true
		}
	}
	return false
}

type checkCfg struct {
	Prop      string
	Tier      string
	Seed      int64
	VerifDir  string
	OnlyFunc  string
	KeepSMT   bool
	Verbose   bool
	NoReplay  bool
}

// curProp: the property being checked (clauses of callee contracts that are labelled for
// other properties only are not assumed at call sites).
var curProp string

func runCheck(cfg checkCfg) int {
	t0 := time.Now()
	curProp = cfg.Prop
	prog, err := Load(nil)
	if err != nil {
		fmt.Println("LOAD ERROR:", err)
		// a tree that does not type-check cannot be verified; this is not a property violation
		writeEvidenceError(cfg, err.Error(), time.Since(t0).Seconds())
		return 2
	}
	loadS := time.Since(t0).Seconds()
	cs := LoadContracts(cfg.VerifDir)
	for _, e := range cs.Errors {
		fmt.Println("CONTRACT ERROR:", e)
	}
	if len(cs.Errors) > 0 {
		// a clause that does not parse would silently drop an obligation: nothing is reported as proved
		writeEvidenceError(cfg, "contract files do not parse: "+strings.Join(cs.Errors, "; "), time.Since(t0).Seconds())
		return 2
	}
	eng := NewEngine(prog, cs)
	for _, w := range eng.Warnings {
		fmt.Println("WARNING:", w)
	}
	kf := LoadKnownFindings(filepath.Join(cfg.VerifDir, "known_findings.txt"))

	// functions serving this property
	type job struct {
		fn *ssa.Function
		c  *Contract
	}
	var jobs []job
	for fn, c := range eng.fnContract {
		if c.Trusted || fn.Blocks == nil {
			continue
		}
		if cfg.Prop != "all" && !containsStr(c.Props, cfg.Prop) {
			continue
		}
		if cfg.OnlyFunc != "" && !strings.Contains(fnKey(fn), cfg.OnlyFunc) {
			continue
		}
		jobs = append(jobs, job{fn, c})
	}
	sort.Slice(jobs, func(i, j int) bool { return fnKey(jobs[i].fn) < fnKey(jobs[j].fn) })

	tmp, err := os.MkdirTemp("", "qedvc-"+cfg.Prop+"-")
	if err != nil {
		fmt.Println("cannot create scratch dir:", err)
		return 2
	}
	if !cfg.KeepSMT {
		defer os.RemoveAll(tmp)
	} else {
		fmt.Println("SMT files kept in", tmp)
	}

	var results []*FuncResult
	var allVCs []*VC
	assumed := map[string]bool{}
	var undecidedFuncs []string
	for _, j := range jobs {
		r := eng.Verify(j.fn, j.c)
		results = append(results, r)
		for a := range r.Assumed {
			assumed[a] = true
		}
		if len(r.Errors) > 0 {
			undecidedFuncs = append(undecidedFuncs, r.Key)
			for _, e := range uniq(r.Errors) {
				fmt.Printf("UNDECIDED %s: %s\n", r.Key, e)
			}
			// A function whose contract cannot be applied to its code any more (a renamed parameter,
			// a call the contract counts that is gone, a construct outside the subset) has none of
			// its obligations generated: that is reported as ONE failed obligation of its own - on
			// the unchanged tree every function under contract is decided, so this obligation passes
			// there - and never as silence.
			why := strings.Join(uniq(r.Errors), "; ")
			allVCs = append(allVCs, &VC{Func: r.Key, Name: "contract:applies-to-the-code", Kind: "contract", Goal: "false",
				Result: "unknown", Solver: "none", Model: "the obligations of this function could not be generated: " + why,
				Note: "the contract of " + r.Key + " can be applied to its code [" + truncate(why, 300) + "]", Props: []string{cfg.Prop}})
			continue
		}
		for _, vc := range r.VCs {
			if len(vc.Props) > 0 && cfg.Prop != "all" && !containsStr(vc.Props, cfg.Prop) {
				continue
			}
			allVCs = append(allVCs, vc)
		}
	}
	genS := time.Since(t0).Seconds() - loadS
	pre := eng.pre.Text()
	timeout := 10
	needTwo := false
	if cfg.Tier == "thorough" {
		timeout = 60
		needTwo = true
	}
	var todo []*VC
	for _, vc := range allVCs {
		if vc.Result == "" {
			todo = append(todo, vc)
		}
	}
	DischargeAll(todo, pre, tmp, timeout, needTwo, 16)
	// second stage for byte-string reasoning: hash injectivity (collision resistance) and
	// cancellation instances, only where the first stage did not succeed
	var again []*VC
	for _, vc := range todo {
		if !vc.ExpectSat && vc.Result != "unsat" && len(vc.Pairwise) > 0 {
			if vc.FullAsserts != nil {
				vc.Asserts, vc.FullAsserts = vc.FullAsserts, nil
			}
			vc.Asserts = append(vc.Asserts[:len(vc.Asserts):len(vc.Asserts)], vc.Pairwise...)
			vc.Result, vc.Solver, vc.Model, vc.Agree, vc.UsedPairwise = "", "", "", 0, true
			again = append(again, vc)
		}
	}
	if len(again) > 0 {
		DischargeAll(again, pre, tmp, timeout, needTwo, 16)
		for _, vc := range again {
			if vc.PairwiseInj && vc.Result == "unsat" {
				assumed["collision resistance: H(x) = H(y) ==> x = y is used as an axiom for the hash function (obligations of "+vc.Func+")"] = true
			}
		}
	}
	// vacuity after a call: an alarm only if the contract made a FEASIBLE path infeasible
	var pres []*VC
	back := map[*VC]*VC{}
	for _, vc := range allVCs {
		if vc.Kind == "vacuity" && vc.PreAsserts != nil {
			if vc.Result != "unsat" {
				vc.Result = "sat" // satisfiable, or undecided: no alarm
				continue
			}
			p := &VC{Name: vc.Name + ":before", Func: vc.Func, Kind: "vacuity", Goal: "true", ExpectSat: true, Decls: vc.PreDecls, Asserts: vc.PreAsserts}
			pres = append(pres, p)
			back[p] = vc
		}
	}
	if len(pres) > 0 {
		DischargeAll(pres, pre, tmp, timeout, false, 16)
		for _, p := range pres {
			if p.Result != "sat" {
				back[p].Result = "sat" // the path was infeasible (or undecided) before the call already
			}
		}
	}

	// group by obligation name
	obs := map[string]*ObResult{}
	var order []string
	covers, coverSat := 0, 0
	type covStat struct {
		n, unsat int
		first    *VC
	}
	covBy := map[string]*covStat{}
	var unreachable []*VC
	for _, vc := range allVCs {
		if vc.Kind == "cover" {
			covers++
			if vc.Result == "sat" {
				coverSat++
			}
			cs := covBy[vc.Func]
			if cs == nil {
				cs = &covStat{first: vc}
				covBy[vc.Func] = cs
			}
			cs.n++
			if vc.Result == "unsat" {
				cs.unsat++
				unreachable = append(unreachable, vc)
			}
			continue
		}
		full := vc.Func + "#" + vc.Name
		o := obs[full]
		if o == nil {
			o = &ObResult{Name: full, Kind: vc.Kind, Result: "discharged", Note: vc.Note}
			obs[full] = o
			order = append(order, full)
		}
		o.VCs++
		o.Seconds += vc.Seconds
		if vc.Solver != "" && !strings.Contains(o.Solver, vc.Solver) {
			if o.Solver != "" {
				o.Solver += ","
			}
			o.Solver += vc.Solver
		}
		good := "unsat"
		if vc.ExpectSat {
			good = "sat"
		}
		if vc.Result != good {
			o.Result = "failed"
			o.failing = append(o.failing, vc)
		}
	}
	// vacuity guard: a function none of whose returns can be reached proves nothing
	for fn, cs := range covBy {
		if cs.n > 0 && cs.unsat == cs.n {
			full := fn + "#vacuity:no-return-reachable"
			v := *cs.first
			v.Kind, v.Name = "vacuity", "vacuity:no-return-reachable"
			obs[full] = &ObResult{Name: full, Kind: "vacuity", Result: "failed", Note: "no return of the function is reachable under its contract and the contracts of its callees", VCs: cs.n, failing: []*VC{&v}}
			order = append(order, full)
		}
	}
	// vacuity guard: a return that the solver PROVES unreachable under the contracts is either dead
	// code (listed, with the reason, in contracts/unreachable_ok.txt) or the sign of a contradiction
	// in the hypotheses of that path - every obligation on it would then pass vacuously
	okUnreach := loadUnreachableOK(filepath.Join(cfg.VerifDir, "contracts", "unreachable_ok.txt"))
	var unreachNames []string
	reach := map[string]bool{} // a return is reachable if ONE of the paths to it is not refuted
	for _, vc := range allVCs {
		if vc.Kind == "cover" && vc.Result != "unsat" {
			reach[vc.Func+"#"+vc.Name] = true
		}
	}
	seenUn := map[string]bool{}
	for _, vc := range unreachable {
		full := vc.Func + "#" + vc.Name
		if reach[full] || seenUn[full] {
			continue
		}
		seenUn[full] = true
		unreachNames = append(unreachNames, full)
		if okUnreach[full] {
			continue
		}
		v := *vc
		v.Kind, v.Name = "vacuity", "vacuity:"+vc.Name+"-unreachable"
		full = vc.Func + "#" + v.Name
		if obs[full] == nil {
			obs[full] = &ObResult{Name: full, Kind: "vacuity", Result: "failed", Note: "this return is provably unreachable under the contracts (a contradiction among the hypotheses of its path, or dead code not listed in contracts/unreachable_ok.txt)", VCs: 1, failing: []*VC{&v}}
			order = append(order, full)
		}
	}
	sort.Strings(unreachNames)
	if cfg.Verbose {
		for _, n := range unreachNames {
			fmt.Println("  unreachable", n)
		}
	}
	sort.Strings(order)

	// stale replay files of this property
	if old, _ := filepath.Glob(filepath.Join(cfg.VerifDir, "replays", cfg.Prop+"__*")); len(old) > 0 {
		for _, f := range old {
			os.Remove(f)
		}
	}
	out := CheckOutput{}
	discharged := 0
	var lines []string
	replayDir := filepath.Join(cfg.VerifDir, "replays")
	var failedNames []string
	for _, name := range order {
		o := obs[name]
		if o.Result == "discharged" {
			discharged++
			continue
		}
		failedNames = append(failedNames, name)
		vc := o.failing[0]
		if kfm := kf.Match(cfg.Prop, name); kfm != nil {
			out.Known++
			lines = append(lines, fmt.Sprintf("KNOWN-FINDING: property=%s %s :: %s", cfg.Prop, name, kfm.What))
			continue
		}
		if vc.Kind == "vacuity" {
			// contradictory precondition: every obligation of the function is vacuous
			out.Violations++
			p := writeReplayFile(replayDir, cfg.Prop, name, vc, nil, "precondition unsatisfiable: the contract is vacuous")
			lines = append(lines, fmt.Sprintf("VIOLATION property=%s replay=%s no-failing-input-found", cfg.Prop, p))
			continue
		}
		// replay the counterexample against the real code
		var rr *ReplayResult
		for _, fv := range o.failing {
			if fv.Result == "sat" && !cfg.NoReplay {
				rr = replayWithRetries(eng, fv, cfg, tmp, pre)
				if rr != nil && rr.Confirmed {
					vc = fv
					break
				}
			}
		}
		if (rr == nil || !rr.Confirmed) && !cfg.NoReplay {
			// no model could be replayed: a scenario driver (a test of the real code that passes as
			// long as the property holds) needs none
			if sr := scenarioReplay(eng, o.failing[0], cfg, tmp); sr != nil {
				if sr.Confirmed || rr == nil {
					rr = sr
				}
			}
		}
		out.Violations++
		reason := fmt.Sprintf("solver result %s (%s)", vc.Result, vc.Solver)
		p := writeReplayFile(replayDir, cfg.Prop, name, vc, rr, reason)
		if rr != nil && rr.Confirmed {
			lines = append(lines, fmt.Sprintf("VIOLATION property=%s replay=%s", cfg.Prop, p))
		} else {
			lines = append(lines, fmt.Sprintf("VIOLATION property=%s replay=%s no-failing-input-found", cfg.Prop, p))
		}
		if cfg.Verbose {
			fmt.Printf("  failed %s: %s [%s]\n", name, vc.Result, vc.Note)
		}
	}
	for _, l := range lines {
		fmt.Println(l)
	}
	wall := time.Since(t0).Seconds()

	// evidence
	var fnames []string
	nPaths := 0
	for _, r := range results {
		fnames = append(fnames, r.Key)
		nPaths += r.Paths
	}
	var samples []interface{}
	for i, name := range order {
		if i%maxInt(1, len(order)/6) == 0 && len(samples) < 8 {
			o := obs[name]
			samples = append(samples, map[string]interface{}{"obligation": o.Name, "kind": o.Kind, "result": o.Result, "solver": o.Solver, "path_vcs": o.VCs, "what": o.Note})
		}
	}
	var assumptions []string
	for a := range assumed {
		assumptions = append(assumptions, "assumed contract / rewriting: "+a)
	}
	sort.Strings(assumptions)
	assumptions = append(assumptions,
		"GOARCH=amd64: int is 64 bits; integers are modelled as bit-vectors with Go's wrap-around, not as mathematical integers",
		"the engine qedvc itself (SSA symbolic execution, memory model, frame rule) and go/ssa, go/types",
		"package rocksdb is replaced by a generated API skeleton (no function of it is under proof)",
		"slices: len/cap/offset are assumed <= 2^40",
	)
	for _, n := range collectNotes(results) {
		assumptions = append(assumptions, "imprecision: "+n)
	}
	stats.mu.Lock()
	solverStats := map[string]interface{}{}
	for k, v := range stats.Calls {
		solverStats[k] = map[string]interface{}{"calls": v, "answered": stats.Unsat[k], "seconds": round2(stats.Seconds[k])}
	}
	stats.mu.Unlock()
	ev := map[string]interface{}{
		"property_id": cfg.Prop,
		"tier":        cfg.Tier,
		"seed":        cfg.Seed,
		"level":       "proof",
		"wall_s":      round2(wall),
		"violations":  out.Violations,
		"assumptions": assumptions,
		"coverage": map[string]interface{}{
			"obligations":              len(order),
			"discharged":               discharged,
			"failed_known_findings":    out.Known,
			"failed_obligations":       failedNames,
			"path_vcs":                 len(allVCs),
			"paths":                    nPaths,
			"functions_under_contract": fnames,
			"undecided_functions":      undecidedFuncs,
			"cover_checks":             covers,
			"cover_reachable":          coverSat,
			"checker_cmd":              fmt.Sprintf("/verif/bin/qedvc check -property %s -tier %s", cfg.Prop, cfg.Tier),
			"trusted_base":             []string{"qedvc (this engine)", "golang.org/x/tools/go/ssa v0.29.0", "z3 5.1.0 (z3-new)", "z3 4.8.12", "cvc5 1.0.x", "contracts in /verif/contracts/trusted (assumed)"},
			"backends":                 solverStats,
			"load_s":                   round2(loadS),
			"vcgen_s":                  round2(genS),
			"samples":                  samples,
			"rocksdb_skeleton_dropped": len(prog.Dropped),
		},
	}
	os.MkdirAll(evidenceDir(cfg), 0o755)
	b, _ := json.MarshalIndent(ev, "", " ")
	os.WriteFile(filepath.Join(evidenceDir(cfg), cfg.Prop+".json"), b, 0o644)
	fmt.Printf("property %s tier %s: %d functions, %d obligations (%d path VCs), %d discharged, %d known findings, %d violations, %d undecided functions, %.1fs\n",
		cfg.Prop, cfg.Tier, len(results), len(order), len(allVCs), discharged, out.Known, out.Violations, len(undecidedFuncs), wall)
	if cfg.Verbose {
		for _, name := range order {
			o := obs[name]
			fmt.Printf("  %-10s %-70s %s %d vcs %.2fs\n", o.Result, o.Name, o.Solver, o.VCs, o.Seconds)
		}
	}
	if len(order) == 0 {
		fmt.Println("no obligations generated: nothing is claimed for this property")
		return 2
	}
	if out.Violations > 0 {
		return 1
	}
	return 0
}

func maxInt(a, b int) int {
	if a > b {
		return a
	}
	return b
}

func round2(f float64) float64 { return float64(int(f*100+0.5)) / 100 }

func uniq(xs []string) []string {
	seen := map[string]bool{}
	var out []string
	for _, x := range xs {
		if !seen[x] {
			seen[x] = true
			out = append(out, x)
		}
	}
	return out
}

func collectNotes(rs []*FuncResult) []string {
	seen := map[string]bool{}
	var out []string
	for _, r := range rs {
		for _, n := range r.Notes {
			if !seen[n] {
				seen[n] = true
				out = append(out, n)
			}
		}
	}
	sort.Strings(out)
	if len(out) > 40 {
		out = append(out[:40], fmt.Sprintf("... and %d more", len(out)-40))
	}
	return out
}

func writeEvidenceError(cfg checkCfg, msg string, wall float64) {
	ev := map[string]interface{}{
		"property_id": cfg.Prop, "tier": cfg.Tier, "seed": cfg.Seed, "level": "other", "wall_s": wall,
		"coverage": map[string]interface{}{"explanation": "the tree could not be loaded/type-checked; nothing was verified: " + msg},
	}
	os.MkdirAll(evidenceDir(cfg), 0o755)
	b, _ := json.MarshalIndent(ev, "", " ")
	os.WriteFile(filepath.Join(evidenceDir(cfg), cfg.Prop+".json"), b, 0o644)
}

// evidenceDir: /verif/evidence, unless QEDVC_EVIDENCE_DIR redirects it (runs against a
// deliberately broken tree - the must-fail corpus - must not overwrite the evidence of the real one).
func evidenceDir(cfg checkCfg) string {
	if d := os.Getenv("QEDVC_EVIDENCE_DIR"); d != "" {
		return d
	}
	if cfg.OnlyFunc != "" {
		// a partial run (-func) is a development aid: its evidence is not the property's
		return filepath.Join(os.TempDir(), "qedvc-partial-evidence")
	}
	return filepath.Join(cfg.VerifDir, "evidence")
}

// loadUnreachableOK reads the committed list of returns that are known to be dead code under
// the contracts: one `func#cover:return@k  reason` per line, # comments.
func loadUnreachableOK(path string) map[string]bool {
	out := map[string]bool{}
	b, err := os.ReadFile(path)
	if err != nil {
		return out
	}
	for _, l := range strings.Split(string(b), "\n") {
		l = strings.TrimSpace(l)
		if l == "" || strings.HasPrefix(l, "//") {
			continue
		}
		out[strings.Fields(l)[0]] = true
	}
	return out
}

func writeReplayFile(dir, prop, ob string, vc *VC, rr *ReplayResult, reason string) string {
	os.MkdirAll(dir, 0o755)
	safe := strings.NewReplacer("/", "_", " ", "_", "*", "", "(", "", ")", "", "#", "--", ":", "-", "$", "-", "@", "-at-").Replace(ob)
	p := filepath.Join(dir, prop+"__"+safe+".txt")
	var b strings.Builder
	fmt.Fprintf(&b, "property: %s\nfailed obligation: %s\nkind: %s\nwhat: %s\nverifier: %s\n", prop, ob, vc.Kind, vc.Note, reason)
	if rr != nil {
		fmt.Fprintf(&b, "\nreplay confirmed on the real code: %v\nreplay command: %s\n\n--- generated test ---\n%s\n--- test output ---\n%s\n", rr.Confirmed, rr.Cmd, rr.TestSrc, rr.Output)
	} else {
		fmt.Fprintf(&b, "\nno-failing-input-found: the verifier produced no input that could be replayed\n")
	}
	fmt.Fprintf(&b, "\n--- solver output ---\n%s\n", truncate(vc.Model, 6000))
	if vc.File != "" {
		if smt, err := os.ReadFile(vc.File); err == nil {
			fmt.Fprintf(&b, "\n--- SMT-LIB query (%d bytes) ---\n%s\n", len(smt), truncate(string(smt), 30000))
		}
	}
	os.WriteFile(p, []byte(b.String()), 0o644)
	return p
}
