package main

// Type invariants of immutable struct types ("typeinv T by ctors: expr").
// The invariant is assumed whenever a value of type T is read, must be
// established by the listed constructors, and a syntactic check (on every run)
// makes sure no other module function writes a field of T or creates a T from
// scratch. If that check fails the invariant is not used and the functions that
// need it become UNDECIDED.

import (
	"fmt"
	"go/token"
	"go/types"
	"strings"

	"golang.org/x/tools/go/ssa"
)

func (e *Engine) typeInvFor(T types.Type) *TypeInv {
	if p, ok := T.(*types.Pointer); ok {
		T = p.Elem()
	}
	n, ok := T.(*types.Named)
	if !ok || n.Obj().Pkg() == nil {
		return nil
	}
	return e.cs.TypeInvs[n.Obj().Pkg().Path()+"."+n.Obj().Name()]
}

func (ti *TypeInv) isCtor(fn *ssa.Function) bool {
	k := fnKey(fn)
	for _, c := range ti.Ctors {
		if strings.HasSuffix(k, "."+c) {
			return true
		}
	}
	return false
}

// checkTypeInvs: fields of an invariant-carrying type are written only in its constructors.
func (e *Engine) checkTypeInvs() {
	if len(e.cs.TypeInvs) == 0 {
		return
	}
	for _, fn := range allFunctions(e, "") {
		for _, b := range fn.Blocks {
			for _, ins := range b.Instrs {
				switch x := ins.(type) {
				case *ssa.FieldAddr:
					ti := e.typeInvFor(x.X.Type().Underlying().(*types.Pointer).Elem())
					if ti == nil || ti.isCtor(fn) {
						continue
					}
					// a FieldAddr that is only loaded from is fine
					for _, r := range *x.Referrers() {
						if u, ok := r.(*ssa.UnOp); ok && u.Op == token.MUL {
							continue
						}
						if _, ok := r.(*ssa.DebugRef); ok {
							continue
						}
						// further field/index addressing that ends in loads is also fine
						if fa, ok := r.(ssa.Value); ok && onlyLoaded(fa, 0) {
							continue
						}
						if s, ok := r.(*ssa.Slice); ok && s.X == x {
							if al := rootAlloc(x); al != nil && isPrivateCopy(al) {
								continue // a slice of the function's own copy of the value
							}
						}
						ti.Broken = fmt.Sprintf("field %s of %s is written or escapes in %s", fieldName(x), ti.Type, fnKey(fn))
					}
				case *ssa.Alloc:
					ti := e.typeInvFor(x.Type().(*types.Pointer).Elem())
					if ti == nil || ti.isCtor(fn) {
						continue
					}
					// allowed: an alloc that receives a whole-value store before any other use
					// (parameter spill, copy of an existing value)
					whole := false
					for _, r := range *x.Referrers() {
						if s, ok := r.(*ssa.Store); ok && s.Addr == x {
							whole = true
						}
					}
					if !whole {
						ti.Broken = fmt.Sprintf("%s is created outside its constructors in %s", ti.Type, fnKey(fn))
					}
				}
			}
		}
	}
	// every constructor must itself be verified (non-trusted contract)
	for _, ti := range e.cs.TypeInvs {
		for _, cn := range ti.Ctors {
			c := e.cs.ByName[ti.Pkg+"."+cn]
			if c == nil || c.Trusted || len(c.Props) == 0 {
				ti.Broken = fmt.Sprintf("constructor %s of %s is not under a verified contract", cn, ti.Type)
			}
		}
	}
	for k, ti := range e.cs.TypeInvs {
		if ti.Broken != "" {
			e.warn("typeinv %s disabled: %s", k, ti.Broken)
		}
	}
}

// isPrivateCopy: the alloc is the spill of a by-value parameter (or receiver): one whole-value
// store of the parameter and no other store to the alloc itself.
func isPrivateCopy(al *ssa.Alloc) bool {
	refs := al.Referrers()
	if refs == nil {
		return false
	}
	n := 0
	for _, r := range *refs {
		if s, ok := r.(*ssa.Store); ok && s.Addr == al {
			if _, isParam := s.Val.(*ssa.Parameter); !isParam {
				return false
			}
			n++
		}
	}
	return n == 1
}

func onlyLoaded(v ssa.Value, depth int) bool {
	if depth > 4 {
		return false
	}
	switch v.(type) {
	case *ssa.FieldAddr, *ssa.IndexAddr:
	default:
		return false
	}
	refs := v.Referrers()
	if refs == nil {
		return false
	}
	for _, r := range *refs {
		if u, ok := r.(*ssa.UnOp); ok && u.Op == token.MUL {
			continue
		}
		if _, ok := r.(*ssa.DebugRef); ok {
			continue
		}
		if s, ok := r.(*ssa.Slice); ok && s.X == v {
			// slicing an array field: writes through the slice are not tracked, so this is an
			// escape - unless the struct is the function's own copy of a value (a value
			// receiver or parameter spilled to memory): the original is out of reach then
			if al := rootAlloc(v); al != nil && isPrivateCopy(al) {
				continue
			}
			return false
		}
		if fa, ok := r.(ssa.Value); ok && onlyLoaded(fa, depth+1) {
			continue
		}
		return false
	}
	return true
}

// typeInvTerm evaluates the invariant of v's type on v ("true" if none).
func (st *State) typeInvTerm(v Value, h *Heap) string {
	if v.T == nil || v.Term == "" {
		return "true"
	}
	ti := st.eng.typeInvFor(v.T)
	if ti == nil {
		return "true"
	}
	if ti.Broken != "" {
		st.res.Errors = append(st.res.Errors, "typeinv "+ti.Type+" unusable: "+ti.Broken)
		return "true"
	}
	self := v
	if pt, ok := v.T.Underlying().(*types.Pointer); ok {
		if _, isStruct := pt.Elem().Underlying().(*types.Struct); !isStruct {
			return "true"
		}
		self = st.loadH(h, v.Term, pt.Elem())
	}
	env := &specEnv{st: st, vars: map[string]Value{"self": self}, heap: h, old: h, topOld: st.allocTop0}
	env.oldVars = env.vars
	if sp := st.eng.ssaPkg(ti.Pkg); sp != nil {
		env.pkg = sp.Pkg
	}
	t := st.evalSpecSafe(ti.Expr, env, &Clause{File: ti.File, Line: ti.Line, Src: ti.Src})
	if v.S == SRef {
		return imp(not(eq(v.Term, nilRef)), t.Term)
	}
	return t.Term
}

// checkCtorInv: a constructor must establish the invariant of what it returns.
func (st *State) checkCtorInv(f *Frame, results []Value, ret *ssa.Return) {
	for i, r := range results {
		ti := st.eng.typeInvFor(r.T)
		if ti == nil || !ti.isCtor(f.fn) {
			continue
		}
		t := st.typeInvTerm(r, st.heap)
		st.oblige("post", fmt.Sprintf("typeinv:%s:result%d", ti.Type, i), t, "type invariant of "+ti.Type+": "+ti.Src+"  [return at "+st.pos(ret)+"]")
	}
}
