package main

// Pointwise treatment of quantified goals (DESIGN.md appendix A): a goal
// "forall k. P(k)" is proved for a fresh constant k0, and every quantified
// hypothesis "forall k. Q(k)" over the same sort that occurs as a top-level
// conjunct (or as the consequent of a top-level implication) is additionally
// instantiated at k0. Both steps are sound; they spare the solver the
// instantiation search, which is what makes such obligations unstable.

import (
	"os"
	"strings"
)

// matchParen returns the index just after the s-expression starting at s[i]=='('.
func matchParen(s string, i int) int {
	depth := 0
	inBar := false
	for j := i; j < len(s); j++ {
		c := s[j]
		if inBar {
			if c == '|' {
				inBar = false
			}
			continue
		}
		switch c {
		case '|':
			inBar = true
		case '(':
			depth++
		case ')':
			depth--
			if depth == 0 {
				return j + 1
			}
		}
	}
	return -1
}

// parseForall splits "(forall ((v SORT)) BODY)" into v, SORT, BODY.
func parseForall(t string) (v, sort, body string, ok bool) {
	const p = "(forall (("
	if !strings.HasPrefix(t, p) {
		return
	}
	rest := t[len(p):]
	sp := strings.IndexByte(rest, ' ')
	if sp < 0 {
		return
	}
	v = rest[:sp]
	rest = rest[sp+1:]
	// SORT is an atom or a parenthesised expression, followed by "))"
	var end int
	if strings.HasPrefix(rest, "(") {
		end = matchParen(rest, 0)
	} else {
		end = strings.IndexByte(rest, ')')
	}
	if end < 0 || !strings.HasPrefix(rest[end:], ")) ") {
		return
	}
	sort = rest[:end]
	body = rest[end+3 : len(rest)-1]
	// drop a pattern annotation (! body :pattern (...))
	if strings.HasPrefix(body, "(! ") {
		inner := body[3:]
		e := 0
		if strings.HasPrefix(inner, "(") {
			e = matchParen(inner, 0)
		} else {
			e = strings.IndexByte(inner, ' ')
		}
		if e > 0 {
			body = inner[:e]
		}
	}
	ok = true
	return
}

// substVar replaces whole-token occurrences of v by w.
func substVar(s, v, w string) string {
	var b strings.Builder
	i := 0
	for i < len(s) {
		if s[i] == '|' {
			j := strings.IndexByte(s[i+1:], '|')
			if j < 0 {
				b.WriteString(s[i:])
				break
			}
			b.WriteString(s[i : i+j+2])
			i += j + 2
			continue
		}
		if strings.HasPrefix(s[i:], v) {
			before := i == 0 || strings.ContainsRune(" ()", rune(s[i-1]))
			after := i+len(v) >= len(s) || strings.ContainsRune(" ()", rune(s[i+len(v)]))
			if before && after {
				b.WriteString(w)
				i += len(v)
				continue
			}
		}
		b.WriteByte(s[i])
		i++
	}
	return b.String()
}

// conjuncts returns the top-level conjuncts of a term (flattening nested and).
func conjuncts(t string) []string {
	if strings.HasPrefix(t, "(and ") {
		var out []string
		for _, c := range splitTop(t[5 : len(t)-1]) {
			out = append(out, conjuncts(c)...)
		}
		return out
	}
	return []string{t}
}

// pointwise rewrites (goal, asserts) for a universally quantified goal.
func (st *State) pointwise(goal string, asserts []string) (string, []string) {
	prefix, q := "", goal
	if strings.HasPrefix(goal, "(=> ") {
		parts := splitTop(goal[4 : len(goal)-1])
		if len(parts) == 2 && strings.HasPrefix(parts[1], "(forall ((") {
			prefix, q = parts[0], parts[1]
		}
	}
	v, sort, body, ok := parseForall(q)
	if !ok {
		return goal, asserts
	}
	sk := st.fresh("sk_"+strings.TrimPrefix(v, "q_"), Sort(sort))
	newGoal := substVar(body, v, sk)
	if prefix != "" && (!strings.Contains(prefix, "(forall ") || os.Getenv("QEDVC_NO_PREFIX_HYP") != "") {
		newGoal = imp(prefix, newGoal)
	} else if prefix != "" {
		// a prefix with quantified conjuncts: to prove  prefix ==> G  is to prove G with prefix among
		// the hypotheses, and its quantified conjuncts are then instantiated at the skolem constant
		// like every other hypothesis (a quantifier-free prefix is left where it is: moving it made
		// the queries of client.topology.NextReadEndpoint markedly slower)
		asserts = append(append([]string(nil), asserts...), conjuncts(prefix)...)
	}
	out := append([]string(nil), asserts...)
	shifted := false
	for _, a := range asserts {
		if strings.Contains(a, "copied_arr") {
			shifted = true
			break
		}
	}
	for _, a := range asserts {
		for _, c := range conjuncts(a) {
			guard, qq := "", c
			if strings.HasPrefix(c, "(=> ") {
				parts := splitTop(c[4 : len(c)-1])
				if len(parts) == 2 && strings.HasPrefix(parts[1], "(forall ((") {
					guard, qq = parts[0], parts[1]
				}
			}
			hv, hs, hb, ok := parseForall(qq)
			if !ok || hs != sort {
				continue
			}
			inst := substVar(hb, hv, sk)
			if guard != "" {
				inst = imp(guard, inst)
			}
			out = append(out, inst)
			if shifted && sort == "(_ BitVec 64)" {
				// after a shifting copy (copy(s[i:], s[i+1:]) and the like) the element read at k is the
				// old element at k+1 or k-1: the hypotheses are instantiated there as well
				for _, w := range []string{app("bvadd", sk, bvInt(1, 64)), app("bvsub", sk, bvInt(1, 64))} {
					i2 := substVar(hb, hv, w)
					if guard != "" {
						i2 = imp(guard, i2)
					}
					out = append(out, i2)
				}
			}
		}
	}
	return newGoal, out
}
