package main

// SMT layer: sorts, term helpers (terms are S-expression strings), the
// per-VC file printer and the solver runner (z3-new, z3 4.8, cvc5).

import (
	"bytes"
	"context"
	"fmt"
	"math/big"
	"math/rand"
	"os"
	"os/exec"
	"path/filepath"
	"sort"
	"strconv"
	"strings"
	"sync"
	"sync/atomic"
	"time"
)

type Sort string

const (
	SBool  Sort = "Bool"
	SRef   Sort = "Ref"
	SStr   Sort = "Str"
	SBytes Sort = "Bytes"
	SSlice Sort = "Slice"
	SIface Sort = "Iface"
	SInt   Sort = "Int"
	SFloat Sort = "Float"
)

func BV(n int) Sort { return Sort(fmt.Sprintf("(_ BitVec %d)", n)) }

func (s Sort) IsBV() bool { return strings.HasPrefix(string(s), "(_ BitVec ") }
func (s Sort) Bits() int {
	var n int
	fmt.Sscanf(string(s), "(_ BitVec %d)", &n)
	return n
}
func ArrSort(k, v Sort) Sort { return Sort("(Array " + string(k) + " " + string(v) + ")") }

// mangled name usable inside identifiers
func (s Sort) Mangle() string {
	r := strings.NewReplacer("(_ BitVec ", "bv", "(Array ", "arr_", ")", "", " ", "_", "(", "")
	return r.Replace(string(s))
}

var selIdx = map[string]struct {
	ctor string
	idx  int
}{"s_ref": {"(mk_slice ", 0}, "s_off": {"(mk_slice ", 1}, "s_len": {"(mk_slice ", 2}, "s_cap": {"(mk_slice ", 3},
	"i_tag": {"(mk_iface ", 0}, "i_ref": {"(mk_iface ", 1}, "sub_p": {"(sub ", 0}, "elem_p": {"(elem ", 0}, "elem_i": {"(elem ", 1}}

func app(op string, args ...string) string {
	if len(args) == 1 {
		if si, ok := selIdx[op]; ok && strings.HasPrefix(args[0], si.ctor) {
			parts := splitTop(args[0][len(si.ctor) : len(args[0])-1])
			if si.idx < len(parts) {
				return parts[si.idx]
			}
		}
		if op == "(_ is elem)" || op == "(_ is sub)" || op == "(_ is mkref)" {
			for _, c := range []string{"elem", "sub", "mkref"} {
				if strings.HasPrefix(args[0], "("+c+" ") {
					if op == "(_ is "+c+")" {
						return "true"
					}
					return "false"
				}
			}
		}
	}
	if len(args) == 2 {
		switch op {
		case "bvadd":
			if isZeroBV(args[1]) {
				return args[0]
			}
			if isZeroBV(args[0]) {
				return args[1]
			}
		case "bvsub":
			if isZeroBV(args[1]) {
				return args[0]
			}
		}
	}
	return "(" + op + " " + strings.Join(args, " ") + ")"
}

func isZeroBV(t string) bool {
	return strings.HasPrefix(t, "(_ bv0 ")
}

func bvLit(v *big.Int, bits int) string {
	m := new(big.Int).Lsh(big.NewInt(1), uint(bits))
	x := new(big.Int).Mod(v, m)
	if x.Sign() < 0 {
		x.Add(x, m)
	}
	return fmt.Sprintf("(_ bv%s %d)", x.String(), bits)
}
func bvInt(v int64, bits int) string { return bvLit(big.NewInt(v), bits) }

func and(ts ...string) string {
	var out []string
	for _, t := range ts {
		if t == "true" {
			continue
		}
		if t == "false" {
			return "false"
		}
		out = append(out, t)
	}
	if len(out) == 0 {
		return "true"
	}
	if len(out) == 1 {
		return out[0]
	}
	return app("and", out...)
}
func or(ts ...string) string {
	var out []string
	for _, t := range ts {
		if t == "false" {
			continue
		}
		if t == "true" {
			return "true"
		}
		out = append(out, t)
	}
	if len(out) == 0 {
		return "false"
	}
	if len(out) == 1 {
		return out[0]
	}
	return app("or", out...)
}
func not(t string) string {
	if t == "true" {
		return "false"
	}
	if t == "false" {
		return "true"
	}
	if strings.HasPrefix(t, "(not ") {
		return t[5 : len(t)-1]
	}
	return app("not", t)
}
func imp(a, b string) string {
	if a == "true" {
		return b
	}
	if a == "false" || b == "true" {
		return "true"
	}
	return app("=>", a, b)
}
func eq(a, b string) string {
	if a == b {
		return "true"
	}
	if b == "(mkref 0)" && nonNilSyntactic(a) {
		return "false"
	}
	if a == "(mkref 0)" && nonNilSyntactic(b) {
		return "false"
	}
	return app("=", a, b)
}

// nonNilSyntactic: interior pointers and freshly allocated objects are never nil.
func nonNilSyntactic(t string) bool {
	if strings.HasPrefix(t, "(sub ") || strings.HasPrefix(t, "(elem ") {
		return true
	}
	return strings.HasPrefix(t, "(mkref ") && t != "(mkref 0)"
}
func ite(c, a, b string) string {
	if c == "true" {
		return a
	}
	if c == "false" {
		return b
	}
	if a == b {
		return a
	}
	return app("ite", c, a, b)
}

// persistent list of strings (path assertions / declarations)
type plist struct {
	parent *plist
	item   string
	n      int
}

func (p *plist) push(s string) *plist {
	n := 1
	if p != nil {
		n = p.n + 1
	}
	return &plist{parent: p, item: s, n: n}
}
func (p *plist) slice() []string {
	if p == nil {
		return nil
	}
	out := make([]string, p.n)
	for q := p; q != nil; q = q.parent {
		out[q.n-1] = q.item
	}
	return out
}

// ---------------------------------------------------------------------------
// Global preamble: datatypes and uninterpreted symbols shared by every VC.

type Preamble struct {
	mu        sync.Mutex
	dtOrder   []string          // datatype declarations in dependency order
	dtSeen    map[string]bool   // by sort name
	funs      map[string]string // name -> declaration line
	funOrder  []string
	axioms    []string // global axioms (quantified or ground)
	strLits   map[string]string // literal -> const name
	strOrder  []string
	sortsSeen map[string]bool
	sortDecl  []string
}

func NewPreamble() *Preamble {
	p := &Preamble{dtSeen: map[string]bool{}, funs: map[string]string{}, strLits: map[string]string{}, sortsSeen: map[string]bool{}}
	for _, s := range []string{"Str", "Bytes", "Float"} {
		p.sortDecl = append(p.sortDecl, "(declare-sort "+s+" 0)")
	}
	p.dtOrder = append(p.dtOrder,
		"(declare-datatypes ((Ref 0)) (((mkref (rid_ Int)) (sub (sub_p Ref) (sub_f Int)) (elem (elem_p Ref) (elem_i (_ BitVec 64))))))",
		"(declare-datatypes ((Slice 0)) (((mk_slice (s_ref Ref) (s_off (_ BitVec 64)) (s_len (_ BitVec 64)) (s_cap (_ BitVec 64))))))",
		"(declare-datatypes ((Iface 0)) (((mk_iface (i_tag Int) (i_ref Ref)))))",
	)
	p.Fun("slen", "(Str) (_ BitVec 64)")
	p.Fun("str_cat", "(Str Str) Str")
	p.Fun("str_at", "(Str (_ BitVec 64)) (_ BitVec 8)")
	p.Fun("str_lt", "(Str Str) Bool")
	p.Fun("str_sub", "(Str (_ BitVec 64) (_ BitVec 64)) Str")
	p.funs["rid"] = "(define-fun-rec rid ((r Ref)) Int (ite ((_ is mkref) r) (rid_ r) (ite ((_ is sub) r) (rid (sub_p r)) (rid (elem_p r)))))"
	p.funOrder = append(p.funOrder, "rid")
	p.Fun("bseq", "((Array (_ BitVec 64) (_ BitVec 8)) (_ BitVec 64) (_ BitVec 64)) Bytes")
	p.Fun("blen", "(Bytes) Int")
	p.Fun("cat", "(Bytes Bytes) Bytes")
	p.Fun("bempty", "() Bytes")
	p.Fun("H", "(Bytes) Bytes")
	p.Fun("hlenH", "() Int") // output length of H
	p.Fun("be64", "((_ BitVec 64)) Bytes")
	p.Fun("be16", "((_ BitVec 16)) Bytes")
	p.Fun("str_bytes", "(Str) Bytes")
	p.Fun("bytes_str", "(Bytes) Str")
	return p
}

func (p *Preamble) Fun(name, sig string) {
	p.mu.Lock()
	defer p.mu.Unlock()
	if _, ok := p.funs[name]; ok {
		return
	}
	p.funs[name] = "(declare-fun " + name + " " + sig + ")"
	p.funOrder = append(p.funOrder, name)
}

func (p *Preamble) HasFun(name string) bool {
	p.mu.Lock()
	defer p.mu.Unlock()
	_, ok := p.funs[name]
	return ok
}

func (p *Preamble) Datatype(sortName, decl string) {
	p.mu.Lock()
	defer p.mu.Unlock()
	if p.dtSeen[sortName] {
		return
	}
	p.dtSeen[sortName] = true
	p.dtOrder = append(p.dtOrder, decl)
}

func (p *Preamble) StrLit(s string) string {
	p.mu.Lock()
	defer p.mu.Unlock()
	if c, ok := p.strLits[s]; ok {
		return c
	}
	c := fmt.Sprintf("strlit_%d", len(p.strOrder))
	p.strLits[s] = c
	p.strOrder = append(p.strOrder, s)
	return c
}

func (p *Preamble) Axiom(a string) {
	p.mu.Lock()
	defer p.mu.Unlock()
	p.axioms = append(p.axioms, a)
}

func (p *Preamble) Text() string {
	p.mu.Lock()
	defer p.mu.Unlock()
	var b strings.Builder
	for _, s := range p.sortDecl {
		b.WriteString(s + "\n")
	}
	for _, d := range p.dtOrder {
		b.WriteString(d + "\n")
	}
	for _, n := range p.funOrder {
		b.WriteString(p.funs[n] + "\n")
	}
	if len(p.strOrder) > 0 {
		var names []string
		for i, s := range p.strOrder {
			c := fmt.Sprintf("strlit_%d", i)
			names = append(names, c)
			fmt.Fprintf(&b, "(declare-const %s Str) ; %q\n(assert (= (slen %s) %s))\n", c, s, c, bvInt(int64(len(s)), 64))
		}
		if len(names) > 1 {
			b.WriteString("(assert (distinct " + strings.Join(names, " ") + "))\n")
		}
	}
	b.WriteString("(assert (= (blen bempty) 0))\n(assert (= (blen (be64 (_ bv0 64))) 8))\n(assert (>= hlenH 1))\n")
	for _, a := range p.axioms {
		b.WriteString("(assert " + a + ")\n")
	}
	return b.String()
}

// ---------------------------------------------------------------------------
// A verification condition.

type VC struct {
	Name    string   // obligation name (without function prefix)
	Func    string   // function key
	Decls   []string // (declare-const ...) lines
	Asserts []string // hypotheses
	Goal    string   // to prove; the file asserts its negation
	Kind    string   // post, pre, panic, inv-init, inv-pres, frame, decr, cover, vacuity
	Note    string   // human readable: source position, expression
	// for model extraction
	ModelVars []ModelVar
	Quant     bool // contains quantifiers
	// result
	Result   string // unsat | sat | unknown | timeout | error
	Solver   string
	Seconds  float64
	Model    string
	Agree    int // number of solvers that returned unsat
	File     string
	FullAsserts []string // before cone-of-influence slicing
	BatchAnswer string
	ExpectSat bool // cover/vacuity checks: sat is the good answer
	Props     []string
	// vacuity after a call: the hypotheses as they were before the callee's contract was assumed
	PreAsserts []string
	PreDecls   []string
	// byte-string lemmas that are quadratic in the number of terms (hash injectivity,
	// cancellation): added only if the query does not go through without them
	Pairwise    []string
	PairwiseInj bool
	UsedPairwise bool
}

type ModelVar struct {
	Name string // Go-level name (parameter path)
	Term string // SMT term to evaluate
	Sort Sort
}

func (vc *VC) SMT(pre string, withModel bool) string {
	var b strings.Builder
	if withModel {
		b.WriteString("(set-option :produce-models true)\n")
	}
	b.WriteString("(set-logic ALL)\n")
	b.WriteString(pre)
	for _, d := range vc.Decls {
		b.WriteString(d + "\n")
	}
	for _, a := range vc.Asserts {
		if a == "true" {
			continue
		}
		b.WriteString("(assert " + a + ")\n")
	}
	if vc.ExpectSat {
		if vc.Goal != "" && vc.Goal != "true" {
			b.WriteString("(assert " + vc.Goal + ")\n")
		}
	} else {
		b.WriteString("(assert (not " + vc.Goal + "))\n")
	}
	b.WriteString("(check-sat)\n")
	if withModel && len(vc.ModelVars) > 0 {
		var ts []string
		for _, mv := range vc.ModelVars {
			ts = append(ts, mv.Term)
		}
		b.WriteString("(get-value (" + strings.Join(ts, " ") + "))\n")
	}
	return b.String()
}

// ---------------------------------------------------------------------------
// Solver runner.

type SolverCfg struct {
	Name string
	Args func(file string, timeoutS int) []string
}

var solvers = []SolverCfg{
	{"z3-new", func(f string, t int) []string { return []string{"z3-new", fmt.Sprintf("-T:%d", t), f} }},
	{"z3", func(f string, t int) []string { return []string{"z3", fmt.Sprintf("-T:%d", t), f} }},
	{"cvc5", func(f string, t int) []string {
		return []string{"cvc5", fmt.Sprintf("--tlimit=%d", t*1000), "--arrays-exp", f}
	}},
}

type SolverStats struct {
	mu      sync.Mutex
	Calls   map[string]int
	Unsat   map[string]int
	Seconds map[string]float64
}

var stats = SolverStats{Calls: map[string]int{}, Unsat: map[string]int{}, Seconds: map[string]float64{}}

func runSolver(s SolverCfg, file string, timeoutS int) (string, string, float64) {
	return runSolverCtx(context.Background(), s, file, timeoutS)
}

// wallFactor: how much longer than its CPU budget a solver may take in wall-clock time.
const wallFactor = 40

// cpuSeconds reads the CPU time (user+system) a process has used so far from /proc.
func cpuSeconds(pid int) (float64, bool) {
	b, err := os.ReadFile(fmt.Sprintf("/proc/%d/stat", pid))
	if err != nil {
		return 0, false
	}
	// the command name (field 2) is parenthesised and may hold spaces: count from the last ')'
	s := string(b)
	i := strings.LastIndexByte(s, ')')
	if i < 0 {
		return 0, false
	}
	f := strings.Fields(s[i+1:])
	if len(f) < 13 {
		return 0, false
	}
	ut, e1 := strconv.ParseFloat(f[11], 64)
	st, e2 := strconv.ParseFloat(f[12], 64)
	if e1 != nil || e2 != nil {
		return 0, false
	}
	return (ut + st) / 100, true // clock ticks: 100 per second on Linux
}

// runSolverCtx runs one solver on one query. The budget timeoutS is a budget of CPU TIME: the
// solvers are single-threaded, so on an idle machine it is the wall-clock timeout it used to be,
// but a verdict must not depend on what else runs on the machine (several checks at once, each
// with sixteen solver processes, made honest obligations time out). The process is stopped when
// it has used its CPU budget, or after wallFactor times as much wall-clock time.
func runSolverCtx(parent context.Context, s SolverCfg, file string, timeoutS int) (string, string, float64) {
	ctx, cancel := context.WithTimeout(parent, time.Duration(timeoutS*wallFactor+2)*time.Second)
	defer cancel()
	args := s.Args(file, timeoutS*wallFactor)
	cmd := exec.CommandContext(ctx, args[0], args[1:]...)
	var out bytes.Buffer
	cmd.Stdout = &out
	cmd.Stderr = &out
	t0 := time.Now()
	var cpuOutFlag int32
	if err := cmd.Start(); err == nil {
		done := make(chan struct{})
		go func() {
			tick := time.NewTicker(100 * time.Millisecond)
			defer tick.Stop()
			for {
				select {
				case <-done:
					return
				case <-tick.C:
					if c, ok := cpuSeconds(cmd.Process.Pid); ok && c >= float64(timeoutS) {
						atomic.StoreInt32(&cpuOutFlag, 1)
						_ = cmd.Process.Kill()
						return
					}
				}
			}
		}()
		_ = cmd.Wait()
		close(done)
	}
	dt := time.Since(t0).Seconds()
	cpuOut := atomic.LoadInt32(&cpuOutFlag) == 1
	txt := out.String()
	first := strings.TrimSpace(strings.SplitN(txt, "\n", 2)[0])
	res := "unknown"
	switch {
	case first == "unsat":
		res = "unsat"
	case first == "sat":
		res = "sat"
	case first == "timeout" || ctx.Err() != nil || cpuOut:
		res = "timeout"
	case strings.Contains(first, "error") || strings.HasPrefix(first, "(error"):
		res = "error"
	}
	stats.mu.Lock()
	stats.Calls[s.Name]++
	stats.Seconds[s.Name] += dt
	if res == "unsat" {
		stats.Unsat[s.Name]++
	}
	stats.mu.Unlock()
	return res, txt, dt
}

var vcCounter int64

// Discharge runs the portfolio on one VC. tier: quick | thorough.
func Discharge(vc *VC, pre string, dir string, timeoutS int, needTwo bool) {
	n := atomic.AddInt64(&vcCounter, 1)
	safe := strings.NewReplacer("/", "_", " ", "_", "*", "", "(", "", ")", "", "#", "-", ":", "-", "$", "-", "<", "", ">", "").Replace(vc.Func + "-" + vc.Name)
	if len(safe) > 120 {
		safe = safe[:120]
	}
	file := filepath.Join(dir, fmt.Sprintf("vc%05d_%s.smt2", n, safe))
	vc.File = file
	txt := vc.SMT(pre, true)
	if err := os.WriteFile(file, []byte(txt), 0o644); err != nil {
		vc.Result = "error"
		vc.Model = err.Error()
		return
	}
	want := "unsat"
	if vc.ExpectSat {
		want = "sat"
	}
	vc.Result = "unknown"
	if !needTwo {
		// quick tier: the solvers race on the query (which of them decides an obligation first
		// varies from query to query; a sequential portfolio pays every loser's timeout first)
		type ans struct {
			name, res, out string
			dt             float64
		}
		ctx, cancelAll := context.WithCancel(context.Background())
		ch := make(chan ans, len(solvers))
		t0 := time.Now()
		for _, s := range solvers {
			go func(s SolverCfg) {
				res, out, dt := runSolverCtx(ctx, s, file, timeoutS)
				ch <- ans{s.Name, res, out, dt}
			}(s)
		}
		var firstOut string
		for range solvers {
			a := <-ch
			if a.res == "sat" || a.res == "unsat" {
				vc.Result, vc.Solver, vc.Agree = a.res, a.name, 1
				if a.res == "sat" {
					vc.Model = a.out
				}
				break
			}
			if firstOut == "" && a.res != "timeout" {
				firstOut = a.name + ": " + a.res + ": " + truncate(a.out, 400)
			} else if firstOut == "" {
				firstOut = a.name + ": timeout"
			}
		}
		cancelAll()
		vc.Seconds += time.Since(t0).Seconds()
		if vc.Result == "unknown" {
			vc.Model = firstOut
		}
		return
	}
	agree := 0
	var firstOut string
	order := solvers
	for i, s := range order {
		to := timeoutS
		if i == 0 && timeoutS > 10 {
			to = timeoutS
		}
		res, out, dt := runSolver(s, file, to)
		vc.Seconds += dt
		if res == want {
			agree++
			if vc.Solver == "" {
				vc.Solver = s.Name
			} else {
				vc.Solver += "+" + s.Name
			}
			vc.Result = want
			if want == "sat" {
				vc.Model = out
			}
			if !needTwo || agree >= 2 || vc.ExpectSat {
				break
			}
			continue
		}
		if res == "sat" || res == "unsat" {
			// definite opposite answer
			if vc.Result != want {
				vc.Result = res
				vc.Solver = s.Name
				vc.Model = out
			}
			break
		}
		if firstOut == "" {
			firstOut = s.Name + ": " + res + ": " + truncate(out, 400)
		}
	}
	vc.Agree = agree
	if vc.Result == "unknown" {
		vc.Model = firstOut
	}
	if needTwo && !vc.ExpectSat && vc.Result == "unsat" && agree < 2 {
		// a single solver's unsat is still unsat; recorded as agree=1
	}
}

func truncate(s string, n int) string {
	if len(s) > n {
		return s[:n] + "…"
	}
	return s
}

// batchCheck runs a batch of VCs in ONE solver process (push/pop), without
// models. VCs answered `unsat` (resp. `sat` for cover checks) are final; the
// others are re-run individually (with models and the full portfolio).
func batchCheck(s SolverCfg, vcs []*VC, pre, dir string, perCheckMs int) {
	n := atomic.AddInt64(&vcCounter, 1)
	file := filepath.Join(dir, fmt.Sprintf("batch%05d_%s.smt2", n, s.Name))
	var b strings.Builder
	b.WriteString("(set-logic ALL)\n")
	if s.Name != "cvc5" {
		fmt.Fprintf(&b, "(set-option :timeout %d)\n", perCheckMs)
	}
	b.WriteString(pre)
	var marks []*VC
	for _, vc := range vcs {
		b.WriteString("(push 1)\n")
		for _, d := range vc.Decls {
			b.WriteString(d + "\n")
		}
		for _, a := range vc.Asserts {
			if a != "true" {
				b.WriteString("(assert " + a + ")\n")
			}
		}
		if vc.ExpectSat {
			if vc.Goal != "" && vc.Goal != "true" {
				b.WriteString("(assert " + vc.Goal + ")\n")
			}
		} else {
			b.WriteString("(assert (not " + vc.Goal + "))\n")
		}
		fmt.Fprintf(&b, "(echo \"@@vc %d\")\n(check-sat)\n(pop 1)\n", len(marks))
		marks = append(marks, vc)
	}
	if err := os.WriteFile(file, []byte(b.String()), 0o644); err != nil {
		return
	}
	total := perCheckMs/1000*len(vcs) + 5
	ctx, cancel := context.WithTimeout(context.Background(), time.Duration(total+5)*time.Second)
	defer cancel()
	var args []string
	if s.Name == "cvc5" {
		args = []string{"cvc5", "--incremental", "--arrays-exp", fmt.Sprintf("--tlimit-per=%d", perCheckMs), file}
	} else {
		args = []string{s.Name, fmt.Sprintf("-T:%d", total), file}
	}
	cmd := exec.CommandContext(ctx, args[0], args[1:]...)
	var out bytes.Buffer
	cmd.Stdout = &out
	cmd.Stderr = &out
	t0 := time.Now()
	_ = cmd.Run()
	dt := time.Since(t0).Seconds()
	// answers are attributed through the echo marker printed before each check-sat,
	// so an error or a missing answer can never shift a result onto another VC
	answers := make([]string, len(vcs))
	cur := -1
	for _, l := range strings.Split(out.String(), "\n") {
		l = strings.Trim(strings.TrimSpace(l), "\"")
		if strings.HasPrefix(l, "@@vc ") {
			fmt.Sscanf(l, "@@vc %d", &cur)
			continue
		}
		switch l {
		case "sat", "unsat", "unknown", "timeout":
			if cur >= 0 && cur < len(answers) && answers[cur] == "" {
				answers[cur] = l
			}
			cur = -1
		default:
			if strings.Contains(l, "error") {
				cur = -1 // an error in this VC: leave it unanswered
			}
		}
	}
	stats.mu.Lock()
	stats.Calls[s.Name+"(batch)"]++
	stats.Seconds[s.Name+"(batch)"] += dt
	stats.mu.Unlock()
	for i, vc := range vcs {
		vc.BatchAnswer = answers[i]
		if answers[i] == "" {
			continue
		}
		if vc.ExpectSat && answers[i] == "unsat" {
			// reachability check: this path is infeasible (a definite answer; no model needed)
			vc.Result, vc.Solver = "unsat", s.Name
			continue
		}
		want := "unsat"
		if vc.ExpectSat {
			want = "sat"
		}
		if answers[i] == want {
			vc.Agree++
			if vc.Solver == "" {
				vc.Solver = s.Name
			} else if !strings.Contains(vc.Solver, s.Name) {
				vc.Solver += "+" + s.Name
			}
			vc.Result = want
			vc.Seconds += dt / float64(len(vcs))
			stats.mu.Lock()
			stats.Unsat[s.Name+"(batch)"]++
			stats.mu.Unlock()
		}
	}
}

// DischargeAll: batched first pass, individual second pass for what is left.
func DischargeAll(all []*VC, pre string, dir string, timeoutS int, needTwo bool, par int) {
	vcs, finish := dedupeVCs(all)
	defer finish()
	stats.mu.Lock()
	stats.Calls["(distinct queries after slicing)"] += len(vcs)
	stats.Calls["(path VCs)"] += len(all)
	stats.mu.Unlock()
	const batchSize = 24
	var batches [][]*VC
	for i := 0; i < len(vcs); i += batchSize {
		j := i + batchSize
		if j > len(vcs) {
			j = len(vcs)
		}
		batches = append(batches, vcs[i:j])
	}
	runBatches := func(s SolverCfg, sel func(*VC) bool) {
		var wg sync.WaitGroup
		ch := make(chan []*VC)
		for i := 0; i < par; i++ {
			wg.Add(1)
			go func() {
				defer wg.Done()
				for b := range ch {
					batchCheck(s, b, pre, dir, 4000)
				}
			}()
		}
		for _, b := range batches {
			var bb []*VC
			for _, vc := range b {
				if sel(vc) {
					bb = append(bb, vc)
				}
			}
			if len(bb) > 0 {
				ch <- bb
			}
		}
		close(ch)
		wg.Wait()
	}
	runBatches(solvers[0], func(vc *VC) bool { return vc.Result == "" })
	if needTwo {
		// second opinion on everything the first solver answered
		runBatches(solvers[2], func(vc *VC) bool { return vc.Agree == 1 && !vc.ExpectSat })
		runBatches(solvers[1], func(vc *VC) bool { return vc.Agree == 1 && !vc.ExpectSat })
	}
	var rest []*VC
	for _, vc := range vcs {
		if vc.Result == "" {
			if vc.FullAsserts != nil {
				vc.Asserts = vc.FullAsserts // models are taken from the unsliced query
			}
			if vc.ExpectSat {
				// reachability / vacuity guard that the solver could not settle with the
				// quantified hypotheses: decide it without them (a weaker guard, stated in the note)
				var qf []string
				for _, a := range vc.Asserts {
					if !strings.Contains(a, "(forall ") && !strings.Contains(a, "(exists ") {
						qf = append(qf, a)
					}
				}
				if len(qf) < len(vc.Asserts) {
					vc.Asserts = qf
					vc.Note += " (quantified hypotheses dropped for this reachability check)"
				}
			}
			rest = append(rest, vc)
		}
	}
	if os.Getenv("QEDVC_DEBUG") != "" {
		byKind := map[string]int{}
		for _, vc := range rest {
			byKind[vc.Kind+"/"+vc.BatchAnswer]++
		}
		fmt.Fprintln(os.Stderr, "individual phase:", byKind)
	}
	dischargeEach(rest, pre, dir, timeoutS, needTwo, par)
	// Undecided proof obligations are tried again as variants of the same query, since the
	// solvers' quantifier instantiation is sensitive to the order of the hypotheses: (0) without
	// the auxiliary quantified hypotheses the engine adds on its own (ages and types of the
	// elements of slices) - fewer hypotheses, so an unsat answer carries over; (1,2) with the
	// hypotheses in another order - the same formula. Only an unsat answer of a variant is used.
	{
		owner := map[*VC]*VC{}
		var vars []*VC
		for _, vc := range rest {
			if vc.ExpectSat || !(vc.Result == "unknown" || vc.Result == "timeout") {
				continue
			}
			for k := 0; k < 3; k++ {
				v := *vc
				v.Result, v.Solver, v.Model, v.Seconds, v.Agree = "", "", "", 0, 0
				if k == 0 {
					v.Asserts = dropAuxQuantified(vc.Asserts)
					if len(v.Asserts) == len(vc.Asserts) {
						continue
					}
				} else {
					v.Asserts = append([]string(nil), vc.Asserts...)
					rand.New(rand.NewSource(int64(k))).Shuffle(len(v.Asserts), func(i, j int) { v.Asserts[i], v.Asserts[j] = v.Asserts[j], v.Asserts[i] })
				}
				vars = append(vars, &v)
				owner[&v] = vc
			}
		}
		if len(vars) > 0 && len(vars) <= 60 {
			dischargeEach(vars, pre, dir, timeoutS, false, par)
			n := 0
			for _, v := range vars {
				vc := owner[v]
				vc.Seconds += v.Seconds
				if v.Result == "unsat" && vc.Result != "unsat" {
					vc.Result, vc.Solver, vc.Agree, vc.Model = "unsat", v.Solver+"(variant)", v.Agree, ""
					n++
				}
			}
			stats.mu.Lock()
			stats.Calls["(decided by a variant of the query)"] += n
			stats.mu.Unlock()
		}
	}
	// last resort for what is still undecided: once more, with little load and more time
	// (an obligation that needs this regularly is unstable and should be reformulated)
	var again []*VC
	for _, vc := range rest {
		if vc.Result == "unknown" || vc.Result == "timeout" || vc.Result == "error" {
			vc.Result, vc.Solver = "", ""
			again = append(again, vc)
		}
	}
	if len(again) > 0 && len(again) <= 12 {
		dischargeEach(again, pre, dir, 3*timeoutS, needTwo, 3)
		stats.mu.Lock()
		stats.Calls["(retried with more time)"] += len(again)
		stats.mu.Unlock()
	} else if len(again) > 12 && len(again) <= 48 {
		// many left: more likely a loaded machine than many hard queries - the ones the solvers
		// were still working on are tried again, with more time and fewer at once
		var tos []*VC
		for _, vc := range again {
			tos = append(tos, vc)
		}
		dischargeEach(tos, pre, dir, 3*timeoutS, needTwo, 6)
		stats.mu.Lock()
		stats.Calls["(retried with more time)"] += len(tos)
		stats.mu.Unlock()
	}
	// and what the solvers were STILL WORKING ON when even that ran out (a timeout, not an
	// "unknown") gets one long attempt: solver time depends on the load of the machine, a verdict
	// must not (seen with the cyclic-index invariants of client.topology.NextReadEndpoint, decided in
	// 5-20 s on an idle machine and not in 30 s next to a dozen other solver processes)
	var last []*VC
	for _, vc := range again {
		if vc.Result == "timeout" && !vc.ExpectSat {
			vc.Result, vc.Solver = "", ""
			last = append(last, vc)
		}
	}
	if len(last) > 0 && len(last) <= 24 && timeoutS <= 15 {
		dischargeEach(last, pre, dir, 9*timeoutS, needTwo, 4)
		stats.mu.Lock()
		stats.Calls["(retried with the longest timeout)"] += len(last)
		stats.mu.Unlock()
	} else {
		for _, vc := range last {
			vc.Result = "timeout"
		}
	}
}

// dropAuxQuantified leaves out the quantified hypotheses the engine adds on its own: the ages
// of references read under a binder and the types/ages of the elements of pointer slices.
func dropAuxQuantified(as []string) []string {
	var out []string
	for _, a := range as {
		if strings.HasPrefix(a, "(forall ((tq_k ") {
			continue
		}
		if strings.HasPrefix(a, "(forall ((q_") {
			if i := strings.Index(a, ")) "); i > 0 && strings.HasPrefix(a[i+3:], "(=> (< (rid ") {
				continue
			}
		}
		out = append(out, a)
	}
	return out
}

// dischargeEach runs VCs one per solver process, in parallel.
func dischargeEach(vcs []*VC, pre string, dir string, timeoutS int, needTwo bool, par int) {
	var wg sync.WaitGroup
	ch := make(chan *VC)
	for i := 0; i < par; i++ {
		wg.Add(1)
		go func() {
			defer wg.Done()
			for vc := range ch {
				Discharge(vc, pre, dir, timeoutS, needTwo)
			}
		}()
	}
	for _, vc := range vcs {
		ch <- vc
	}
	close(ch)
	wg.Wait()
}

func sortedKeys[M ~map[string]V, V any](m M) []string {
	ks := make([]string, 0, len(m))
	for k := range m {
		ks = append(ks, k)
	}
	sort.Strings(ks)
	return ks
}
