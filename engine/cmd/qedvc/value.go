package main

import (
	"fmt"
	"go/types"
	"math/big"
	"strings"

	"golang.org/x/tools/go/ssa"
)

// Value is a symbolic Go (or spec-level) value.
type Value struct {
	T       types.Type // Go type; nil for spec-only values (Bytes, Int) and untyped constants
	S       Sort
	Term    string
	Tuple   []Value
	Fn      *ssa.Function // statically known function / closure
	Bind    []Value       // closure bindings
	Loc     *Loc          // pointer into a local cell (never an SMT term)
	Untyped *big.Int      // untyped integer constant (specs)
	Range   *rangeState   // for Range/Next
}

type rangeState struct {
	over    Value
	kind    string // map | string
	keySort Sort   // map ranges: sort of the keys
}

type Cell struct {
	Name string
	T    types.Type
	ID   int
}

type step struct {
	field int    // >=0: struct field
	index string // else array index term (BV64)
	T     types.Type
}

type Loc struct {
	Cell *Cell
	Path []step
}

func (v Value) String() string {
	if v.Loc != nil {
		return fmt.Sprintf("&cell(%s)%v", v.Loc.Cell.Name, v.Loc.Path)
	}
	if v.Tuple != nil {
		var s []string
		for _, x := range v.Tuple {
			s = append(s, x.String())
		}
		return "(" + strings.Join(s, ", ") + ")"
	}
	return v.Term
}

// Heap is the symbolic memory: name of array -> current term.
type Heap struct {
	m     map[string]string
	sorts map[string]Sort
	epoch int
	pfEpoch map[int]int // private-field arrays are havocked individually
}

func (h *Heap) clone() *Heap {
	n := &Heap{m: make(map[string]string, len(h.m)), sorts: make(map[string]Sort, len(h.sorts)), epoch: h.epoch, pfEpoch: make(map[int]int, len(h.pfEpoch))}
	for k, v := range h.pfEpoch {
		n.pfEpoch[k] = v
	}
	for k, v := range h.m {
		n.m[k] = v
	}
	for k, v := range h.sorts {
		n.sorts[k] = v
	}
	return n
}

type modEntry struct {
	cond string // "" or a Bool term: the entry applies only when cond holds ("modifies X when cond")
	kind string // cell | fields | elems | map | ghost | all
	ref  string // address (cell), object ref (fields), backing ref (elems), map ref
	name string // heap array (ghost) or ""
	T    types.Type
}

type modSet struct {
	entries  []modEntry
	allocTop string // objects with rid >= allocTop are fresh w.r.t. this set
	what     string // "function" or "loop#k"
}
