package main

// Engine: contract resolution, static pre-analyses (loops, ordinals, cells).

import (
	"fmt"
	"go/token"
	"go/types"
	"os"
	"sort"
	"strings"
	"sync"

	"golang.org/x/tools/go/ssa"
)

type Engine struct {
	prog         *Program
	pre          *Preamble
	te           *TypeEnv
	cs           *ContractSet
	fnContract   map[*ssa.Function]*Contract
	methContract map[*types.Func]*Contract
	purePkgs     map[string]bool
	constGlobal  map[*ssa.Global]bool
	nonNilGlobal map[*ssa.Global]bool
	privFields   map[string]*PrivField
	privByID     map[int]*PrivField
	reach        map[string]map[string]bool
	mu           sync.Mutex
	cellableC    map[*ssa.Alloc]bool
	loopC        map[*ssa.Function]*loopInfo
	ordC         map[*ssa.Function]map[ordKey]string
	selfClosure  map[*ssa.FreeVar]*ssa.Function
	Warnings     []string
	MaxInline    int
	MaxPaths     int
	freshAppend  bool // the older model of append (always a fresh array), QEDVC_FRESH_APPEND=1
}

type ordKey struct {
	ins  ssa.Instruction
	kind string
}

func NewEngine(prog *Program, cs *ContractSet) *Engine {
	pre := NewPreamble()
	e := &Engine{prog: prog, pre: pre, te: NewTypeEnv(pre), cs: cs,
		fnContract: map[*ssa.Function]*Contract{}, methContract: map[*types.Func]*Contract{},
		purePkgs: map[string]bool{}, constGlobal: map[*ssa.Global]bool{},
		cellableC: map[*ssa.Alloc]bool{}, loopC: map[*ssa.Function]*loopInfo{}, ordC: map[*ssa.Function]map[ordKey]string{},
		selfClosure: map[*ssa.FreeVar]*ssa.Function{},
		MaxInline:   4, MaxPaths: 6000, freshAppend: os.Getenv("QEDVC_FRESH_APPEND") != ""}
	for _, p := range cs.PurePkgs {
		e.purePkgs[p] = true
	}
	e.resolveContracts()
	e.findConstGlobals()
	e.checkTypeInvs()
	e.checkImmutable()
	e.computePrivateFields()
	e.findNonNilGlobals()
	return e
}

func (e *Engine) warn(f string, a ...interface{}) {
	e.mu.Lock()
	e.Warnings = append(e.Warnings, fmt.Sprintf(f, a...))
	e.mu.Unlock()
}

func (e *Engine) ssaPkg(path string) *ssa.Package {
	if p, ok := e.prog.SSAPkgs[path]; ok {
		return p
	}
	return e.prog.SSA.ImportedPackage(path)
}

// resolveName finds the function (or abstract method) a contract name denotes.
func (e *Engine) resolveName(pkgPath, name string) (*ssa.Function, *types.Func, error) {
	sp := e.ssaPkg(pkgPath)
	if sp == nil {
		return nil, nil, fmt.Errorf("package %s not loaded", pkgPath)
	}
	parts := strings.Split(name, ".")
	// try: Func ; Type.Method ; then closures as trailing parts
	var fn *ssa.Function
	var abstract *types.Func
	rest := parts
	if f := sp.Func(parts[0]); f != nil {
		fn = f
		rest = parts[1:]
	} else if len(parts) >= 2 {
		obj := sp.Pkg.Scope().Lookup(parts[0])
		tn, ok := obj.(*types.TypeName)
		if !ok {
			return nil, nil, fmt.Errorf("%s.%s: no such function or type", pkgPath, parts[0])
		}
		T := tn.Type()
		if _, isIface := T.Underlying().(*types.Interface); isIface {
			o, _, _ := types.LookupFieldOrMethod(T, true, sp.Pkg, parts[1])
			m, ok := o.(*types.Func)
			if !ok {
				return nil, nil, fmt.Errorf("%s.%s: no method %s", pkgPath, parts[0], parts[1])
			}
			return nil, m, nil
		}
		o, _, _ := types.LookupFieldOrMethod(types.NewPointer(T), true, sp.Pkg, parts[1])
		m, ok := o.(*types.Func)
		if !ok {
			return nil, nil, fmt.Errorf("%s.%s: no method %s", pkgPath, parts[0], parts[1])
		}
		fn = e.prog.SSA.FuncValue(m)
		if fn == nil {
			abstract = m
			return nil, abstract, nil
		}
		rest = parts[2:]
	} else {
		return nil, nil, fmt.Errorf("%s.%s: not found", pkgPath, name)
	}
	for _, r := range rest {
		c := e.findClosure(fn, r)
		if c == nil {
			return nil, nil, fmt.Errorf("%s.%s: closure %q not found in %s", pkgPath, name, r, fn.Name())
		}
		fn = c
	}
	return fn, nil, nil
}

// findClosure finds the anonymous function bound to local variable `name`
// in fn, or the n-th anonymous function for "$n".
func (e *Engine) findClosure(fn *ssa.Function, name string) *ssa.Function {
	if strings.HasPrefix(name, "$[") && strings.HasSuffix(name, "]") {
		// $[a,s]: the unique anonymous function that captures (at least) these variables;
		// robust against closures being added or reordered
		want := strings.Split(name[2:len(name)-1], ",")
		var found *ssa.Function
		for _, a := range fn.AnonFuncs {
			ok := true
			for _, w := range want {
				has := false
				for _, fv := range a.FreeVars {
					if fv.Name() == strings.TrimSpace(w) {
						has = true
					}
				}
				ok = ok && has
			}
			if ok {
				if found != nil {
					return nil // ambiguous
				}
				found = a
			}
		}
		return found
	}
	if strings.HasPrefix(name, "$") {
		for _, a := range fn.AnonFuncs {
			if strings.HasSuffix(a.Name(), name) {
				return a
			}
		}
		return nil
	}
	for _, b := range fn.Blocks {
		for _, ins := range b.Instrs {
			st, ok := ins.(*ssa.Store)
			if !ok {
				continue
			}
			al, ok := st.Addr.(*ssa.Alloc)
			if !ok || al.Comment != name {
				continue
			}
			val := st.Val
			if ct, ok := val.(*ssa.ChangeType); ok {
				val = ct.X // a function literal assigned to a variable of a named function type
			}
			switch v := val.(type) {
			case *ssa.MakeClosure:
				return v.Fn.(*ssa.Function)
			case *ssa.Function:
				return v
			}
		}
	}
	return nil
}

func (e *Engine) resolveContracts() {
	for _, k := range sortedKeys(e.cs.ByName) {
		c := e.cs.ByName[k]
		fn, m, err := e.resolveName(c.Pkg, c.Name)
		if err != nil {
			c.Key = ""
			e.warn("contract %s (%s:%d): %v", k, c.File, c.Line, err)
			continue
		}
		c.Key = k
		if fn != nil {
			e.fnContract[fn] = c
		}
		if m != nil {
			e.methContract[m] = c
		}
	}
}

func (e *Engine) findConstGlobals() {
	written := map[*ssa.Global]bool{}
	for _, sp := range e.prog.SSAPkgs {
		for _, mem := range sp.Members {
			var fns []*ssa.Function
			switch m := mem.(type) {
			case *ssa.Function:
				fns = append(fns, m)
			case *ssa.Type:
				for _, T := range []types.Type{m.Type(), types.NewPointer(m.Type())} {
					ms := e.prog.SSA.MethodSets.MethodSet(T)
					for i := 0; i < ms.Len(); i++ {
						if f := e.prog.SSA.MethodValue(ms.At(i)); f != nil {
							fns = append(fns, f)
						}
					}
				}
			}
			for len(fns) > 0 {
				f := fns[0]
				fns = fns[1:]
				fns = append(fns, f.AnonFuncs...)
				if f.Name() == "init" && f.Parent() == nil {
					continue
				}
				for _, b := range f.Blocks {
					for _, ins := range b.Instrs {
						for _, op := range ins.Operands(nil) {
							g, ok := (*op).(*ssa.Global)
							if !ok {
								continue
							}
							if u, ok := ins.(*ssa.UnOp); ok && u.Op == token.MUL {
								continue // plain read
							}
							written[g] = true
						}
					}
				}
			}
		}
	}
	for _, sp := range e.prog.SSA.AllPackages() {
		for _, mem := range sp.Members {
			if g, ok := mem.(*ssa.Global); ok && !written[g] {
				e.constGlobal[g] = true
			}
		}
	}
}

// ---------------------------------------------------------------------------
// cells: allocs whose address never escapes are kept as executor-level cells.

func (e *Engine) cellable(a *ssa.Alloc) bool {
	e.mu.Lock()
	if v, ok := e.cellableC[a]; ok {
		e.mu.Unlock()
		return v
	}
	e.mu.Unlock()
	v := e.addrUseOK(a, map[ssa.Value]bool{})
	e.mu.Lock()
	e.cellableC[a] = v
	e.mu.Unlock()
	return v
}

func (e *Engine) addrUseOK(v ssa.Value, seen map[ssa.Value]bool) bool {
	if seen[v] {
		return true
	}
	seen[v] = true
	refs := v.Referrers()
	if refs == nil {
		return false
	}
	for _, r := range *refs {
		switch x := r.(type) {
		case *ssa.UnOp:
			if x.Op != token.MUL {
				return false
			}
		case *ssa.Store:
			if x.Addr != v || x.Val == v {
				return false
			}
		case *ssa.FieldAddr:
			if !e.addrUseOK(x, seen) {
				return false
			}
		case *ssa.IndexAddr:
			if x.X != v || !e.addrUseOK(x, seen) {
				return false
			}
		case *ssa.DebugRef:
		case *ssa.MakeClosure:
			fn := x.Fn.(*ssa.Function)
			for i, b := range x.Bindings {
				if b == v {
					if !e.addrUseOK(fn.FreeVars[i], seen) {
						return false
					}
				}
			}
		case *ssa.Slice:
			return false
		default:
			return false
		}
	}
	return true
}

// ---------------------------------------------------------------------------
// loops

type loopInfo struct {
	headers map[*ssa.BasicBlock]int                     // header -> ordinal (1-based)
	blocks  map[*ssa.BasicBlock]map[*ssa.BasicBlock]bool // header -> natural loop body
}

func (e *Engine) loops(fn *ssa.Function) *loopInfo {
	e.mu.Lock()
	if li, ok := e.loopC[fn]; ok {
		e.mu.Unlock()
		return li
	}
	e.mu.Unlock()
	li := &loopInfo{headers: map[*ssa.BasicBlock]int{}, blocks: map[*ssa.BasicBlock]map[*ssa.BasicBlock]bool{}}
	for _, b := range fn.Blocks {
		for _, s := range b.Succs {
			if s.Dominates(b) { // back edge b -> s
				body := li.blocks[s]
				if body == nil {
					body = map[*ssa.BasicBlock]bool{s: true}
					li.blocks[s] = body
				}
				// natural loop: all nodes that can reach b without passing s
				stack := []*ssa.BasicBlock{b}
				for len(stack) > 0 {
					n := stack[len(stack)-1]
					stack = stack[:len(stack)-1]
					if body[n] {
						continue
					}
					body[n] = true
					stack = append(stack, n.Preds...)
				}
			}
		}
	}
	var hs []*ssa.BasicBlock
	for h := range li.blocks {
		hs = append(hs, h)
	}
	// order by source position of the loop (first instruction with a position), falling back to block index
	pos := func(b *ssa.BasicBlock) token.Pos {
		best := token.NoPos
		for bb := range li.blocks[b] {
			for _, ins := range bb.Instrs {
				if p := ins.Pos(); p.IsValid() && (best == token.NoPos || p < best) {
					best = p
				}
			}
		}
		return best
	}
	sort.Slice(hs, func(i, j int) bool {
		pi, pj := pos(hs[i]), pos(hs[j])
		if pi != pj {
			return pi < pj
		}
		return hs[i].Index < hs[j].Index
	})
	for i, h := range hs {
		li.headers[h] = i + 1
	}
	e.mu.Lock()
	e.loopC[fn] = li
	e.mu.Unlock()
	return li
}

// ---------------------------------------------------------------------------
// ordinals of potentially panicking sites

func (e *Engine) ordinal(fn *ssa.Function, ins ssa.Instruction, kind string) string {
	e.mu.Lock()
	m, ok := e.ordC[fn]
	e.mu.Unlock()
	if !ok {
		m = map[ordKey]string{}
		cnt := map[string]int{}
		add := func(ins ssa.Instruction, kind string) {
			cnt[kind]++
			m[ordKey{ins, kind}] = fmt.Sprintf("%s@%d", kind, cnt[kind])
		}
		for _, b := range fn.Blocks {
			for _, ins := range b.Instrs {
				switch x := ins.(type) {
				case *ssa.IndexAddr:
					if _, isPtr := x.X.Type().Underlying().(*types.Pointer); isPtr {
						add(ins, "nil")
					}
					add(ins, "index")
				case *ssa.Index:
					add(ins, "index")
				case *ssa.Lookup:
					if _, isMap := x.X.Type().Underlying().(*types.Map); !isMap {
						add(ins, "index")
					}
				case *ssa.Slice:
					add(ins, "slice")
				case *ssa.FieldAddr:
					add(ins, "nil")
				case *ssa.Field:
				case *ssa.UnOp:
					if x.Op == token.MUL {
						add(ins, "nil")
					}
				case *ssa.Store:
					add(ins, "nil")
					add(ins, "frame")
				case *ssa.MapUpdate:
					add(ins, "nilmap")
					add(ins, "frame")
				case *ssa.TypeAssert:
					if !x.CommaOk {
						add(ins, "assert")
					}
				case *ssa.Panic:
					add(ins, "explicit")
				case *ssa.BinOp:
					if x.Op == token.QUO || x.Op == token.REM {
						add(ins, "div")
					}
					if x.Op == token.SHL || x.Op == token.SHR {
						add(ins, "shift")
					}
				case *ssa.MakeSlice:
					add(ins, "makelen")
				case *ssa.Call:
					add(ins, "call")
				case *ssa.Defer:
					add(ins, "call")
				case *ssa.Go:
					add(ins, "call")
				case *ssa.SliceToArrayPointer:
					add(ins, "conv")
				case *ssa.Return:
					add(ins, "return")
				case *ssa.Send:
					add(ins, "send")
				}
			}
		}
		e.mu.Lock()
		e.ordC[fn] = m
		e.mu.Unlock()
	}
	if s, ok := m[ordKey{ins, kind}]; ok {
		return s
	}
	return kind + "@?"
}

func shortFn(fn *ssa.Function) string {
	if fn == nil {
		return "?"
	}
	s := fn.String()
	s = strings.ReplaceAll(s, modPath+"/", "")
	return s
}

// fnKey is the canonical reporting name of a function: pkg.Recv.Name[.closure]
func fnKey(fn *ssa.Function) string {
	if fn.Parent() != nil {
		return fnKey(fn.Parent()) + "." + strings.TrimPrefix(fn.Name(), fn.Parent().Name())
	}
	pkg := ""
	if fn.Pkg != nil {
		pkg = strings.TrimPrefix(fn.Pkg.Pkg.Path(), modPath+"/")
	}
	if recv := fn.Signature.Recv(); recv != nil {
		t := recv.Type()
		if p, ok := t.(*types.Pointer); ok {
			t = p.Elem()
		}
		if n, ok := t.(*types.Named); ok {
			if pkg == "" && n.Obj().Pkg() != nil {
				pkg = strings.TrimPrefix(n.Obj().Pkg().Path(), modPath+"/")
			}
			return pkg + "." + n.Obj().Name() + "." + fn.Name()
		}
	}
	return pkg + "." + fn.Name()
}
