package main

// Immutable fields: "immutable T.f, T.g by ctor1,ctor2". A field declared
// immutable is written only by the listed functions (checked syntactically on
// every run, together with "its address never escapes"); its cells live in a
// separate heap array that calls with unknown effects do not havoc. This is
// how facts such as "the client's hasher factory" or "the tree's store"
// survive a call whose frame is "everything".

import (
	"fmt"
	"go/token"
	"go/types"
	"strings"

	"golang.org/x/tools/go/ssa"
)

type ImmField struct {
	Pkg, Type, Field string
	By               []string
	ID               int
	Broken           string
	File             string
	Line             int
}

const immBase = 100000

// fsub: address of field i of a struct of type T located at addr.
func (e *Engine) fsub(addr string, T types.Type, i int) string {
	n, ok := T.(*types.Named)
	if !ok || n.Obj().Pkg() == nil {
		return sub(addr, i)
	}
	st, ok := n.Underlying().(*types.Struct)
	if !ok || i >= st.NumFields() {
		return sub(addr, i)
	}
	if f := e.cs.ImmFields[n.Obj().Pkg().Path()+"."+n.Obj().Name()+"."+st.Field(i).Name()]; f != nil && f.Broken == "" {
		return sub(addr, f.ID)
	}
	if a := e.privSub(addr, n, st, i); a != "" {
		return a
	}
	return sub(addr, i)
}

// immArray: heap array name for an address, if it is an immutable-field cell.
func immArray(addr string, s Sort) (string, bool) {
	if !strings.HasPrefix(addr, "(sub ") {
		return "", false
	}
	parts := splitTop(addr[5 : len(addr)-1])
	if len(parts) != 2 {
		return "", false
	}
	var id int
	if _, err := fmt.Sscanf(parts[1], "%d", &id); err != nil || id < immBase {
		return "", false
	}
	if id >= privBase {
		return fmt.Sprintf("pf_%d_%s", id, s.Mangle()), true
	}
	return fmt.Sprintf("imm_%d_%s", id, s.Mangle()), true
}

// immArrayOfStore: the heap array a store through addr writes, if addr is a field declared
// immutable (the store is then in one of the field's listed writers).
func (e *Engine) immArrayOfStore(addr ssa.Value) (string, Sort, bool) {
	fa, ok := addr.(*ssa.FieldAddr)
	if !ok {
		return "", "", false
	}
	pt, ok := fa.X.Type().Underlying().(*types.Pointer)
	if !ok {
		return "", "", false
	}
	n, ok := pt.Elem().(*types.Named)
	if !ok || n.Obj().Pkg() == nil {
		return "", "", false
	}
	st, ok := n.Underlying().(*types.Struct)
	if !ok || fa.Field >= st.NumFields() {
		return "", "", false
	}
	f := e.cs.ImmFields[n.Obj().Pkg().Path()+"."+n.Obj().Name()+"."+st.Field(fa.Field).Name()]
	if f == nil || f.Broken != "" {
		return "", "", false
	}
	s := e.te.SortOf(st.Field(fa.Field).Type())
	return fmt.Sprintf("imm_%d_%s", f.ID, s.Mangle()), ArrSort(SRef, s), true
}

func pfID(name string) int {
	var id int
	if _, err := fmt.Sscanf(name, "pf_%d_", &id); err != nil {
		return 0
	}
	return id
}

func isImmAddr(addr string) bool {
	_, ok := immArray(addr, SRef)
	return ok
}

func (f *ImmField) allowed(fn *ssa.Function) bool {
	k := fnKey(fn)
	for _, c := range f.By {
		if strings.HasSuffix(k, "."+c) {
			return true
		}
	}
	return false
}

// checkImmutable: syntactic check that declared immutable fields are only
// written by the listed functions and that their address does not escape.
func (e *Engine) checkImmutable() {
	if len(e.cs.ImmFields) == 0 {
		return
	}
	id := immBase
	for _, k := range sortedKeys(e.cs.ImmFields) {
		id++
		e.cs.ImmFields[k].ID = id
	}
	for _, fn := range allFunctions(e, "") {
		for _, b := range fn.Blocks {
			for _, ins := range b.Instrs {
				fa, ok := ins.(*ssa.FieldAddr)
				if !ok {
					continue
				}
				T := fa.X.Type().Underlying().(*types.Pointer).Elem()
				n, ok := T.(*types.Named)
				if !ok || n.Obj().Pkg() == nil {
					continue
				}
				f := e.cs.ImmFields[n.Obj().Pkg().Path()+"."+n.Obj().Name()+"."+fieldName(fa)]
				if f == nil {
					continue
				}
				for _, r := range *fa.Referrers() {
					switch x := r.(type) {
					case *ssa.UnOp:
						if x.Op == token.MUL {
							continue
						}
					case *ssa.DebugRef:
						continue
					case *ssa.Store:
						if x.Addr == fa && f.allowed(fn) {
							continue
						}
					case *ssa.FieldAddr, *ssa.IndexAddr:
						if onlyLoaded(x.(ssa.Value), 0) {
							continue
						}
					case *ssa.Call:
						// method call on an embedded value (e.g. c.mu.Lock()): the field itself is not reassigned
						if _, isStruct := fa.Type().(*types.Pointer).Elem().Underlying().(*types.Struct); isStruct {
							continue
						}
					}
					f.Broken = fmt.Sprintf("field %s.%s is written or its address escapes in %s", f.Type, f.Field, fnKey(fn))
				}
			}
		}
	}
	for k, f := range e.cs.ImmFields {
		if f.Broken != "" {
			e.warn("immutable %s disabled: %s", k, f.Broken)
		}
	}
}
