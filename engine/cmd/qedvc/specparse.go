package main

// Parser for specification expressions: Go expression syntax plus
//   a ==> b, a <==> b, forall x T :: e, exists x T :: e, old(e), result, result.N

import (
	"fmt"
	"strings"
	"unicode"
)

type SKind int

const (
	KIdent SKind = iota
	KInt
	KStr
	KChar
	KUnary  // Op, Args[0]
	KBinary // Op, Args[0], Args[1]
	KCall   // Args[0] = fun, Args[1:] = args
	KSel    // Args[0].Name
	KIndex  // Args[0][Args[1]]
	KSlice  // Args[0][Args[1]:Args[2]] (nil allowed)
	KQuant  // Op = forall|exists, Name var, Type, Args[0] body
	KStar   // wildcard in modifies: p.*  (Args[0]=p) or s[*]
)

type SExpr struct {
	Kind SKind
	Op   string
	Name string
	Type string
	Args []*SExpr
}

func (e *SExpr) String() string {
	if e == nil {
		return "<nil>"
	}
	switch e.Kind {
	case KIdent, KInt:
		return e.Name
	case KStr:
		return fmt.Sprintf("%q", e.Name)
	case KChar:
		return fmt.Sprintf("'%s'", e.Name)
	case KUnary:
		return e.Op + e.Args[0].String()
	case KBinary:
		return "(" + e.Args[0].String() + " " + e.Op + " " + e.Args[1].String() + ")"
	case KCall:
		var as []string
		for _, a := range e.Args[1:] {
			as = append(as, a.String())
		}
		return e.Args[0].String() + "(" + strings.Join(as, ", ") + ")"
	case KSel:
		return e.Args[0].String() + "." + e.Name
	case KIndex:
		return e.Args[0].String() + "[" + e.Args[1].String() + "]"
	case KSlice:
		lo, hi := "", ""
		if e.Args[1] != nil {
			lo = e.Args[1].String()
		}
		if e.Args[2] != nil {
			hi = e.Args[2].String()
		}
		return e.Args[0].String() + "[" + lo + ":" + hi + "]"
	case KQuant:
		return "(" + e.Op + " " + e.Name + " " + e.Type + " :: " + e.Args[0].String() + ")"
	case KStar:
		return e.Args[0].String() + ".*"
	}
	return "?"
}

type tok struct {
	kind string // id, int, str, char, op, eof
	text string
}

func lexSpec(s string) ([]tok, error) {
	var out []tok
	i := 0
	ops := []string{"<==>", "==>", "&&", "||", "==", "!=", "<=", ">=", "<<", ">>", "&^", "::", "+", "-", "*", "/", "%", "&", "|", "^", "<", ">", "!", "(", ")", "[", "]", ".", ",", ":"}
	for i < len(s) {
		c := s[i]
		switch {
		case c == ' ' || c == '\t' || c == '\n' || c == '\r':
			i++
		case unicode.IsLetter(rune(c)) || c == '_' || c == '$':
			j := i
			for j < len(s) && (unicode.IsLetter(rune(s[j])) || unicode.IsDigit(rune(s[j])) || s[j] == '_' || s[j] == '$') {
				j++
			}
			out = append(out, tok{"id", s[i:j]})
			i = j
		case c >= '0' && c <= '9':
			j := i
			for j < len(s) && (unicode.IsDigit(rune(s[j])) || unicode.IsLetter(rune(s[j])) || s[j] == '_') {
				j++
			}
			out = append(out, tok{"int", strings.ReplaceAll(s[i:j], "_", "")})
			i = j
		case c == '"':
			j := i + 1
			var b strings.Builder
			for j < len(s) && s[j] != '"' {
				if s[j] == '\\' && j+1 < len(s) {
					j++
					switch s[j] {
					case 'n':
						b.WriteByte('\n')
					case 't':
						b.WriteByte('\t')
					default:
						b.WriteByte(s[j])
					}
				} else {
					b.WriteByte(s[j])
				}
				j++
			}
			if j >= len(s) {
				return nil, fmt.Errorf("unterminated string")
			}
			out = append(out, tok{"str", b.String()})
			i = j + 1
		case c == '\'':
			j := strings.IndexByte(s[i+1:], '\'')
			if j < 0 {
				return nil, fmt.Errorf("unterminated char")
			}
			out = append(out, tok{"char", s[i+1 : i+1+j]})
			i = i + j + 2
		default:
			matched := false
			for _, op := range ops {
				if strings.HasPrefix(s[i:], op) {
					out = append(out, tok{"op", op})
					i += len(op)
					matched = true
					break
				}
			}
			if !matched {
				return nil, fmt.Errorf("unexpected character %q", c)
			}
		}
	}
	out = append(out, tok{"eof", ""})
	return out, nil
}

type sparser struct {
	toks []tok
	pos  int
}

func ParseSpec(s string) (*SExpr, error) {
	toks, err := lexSpec(s)
	if err != nil {
		return nil, err
	}
	p := &sparser{toks: toks}
	var e *SExpr
	func() {
		defer func() {
			if r := recover(); r != nil {
				if pe, ok := r.(parseErr); ok {
					err = fmt.Errorf("%s", string(pe))
					return
				}
				panic(r)
			}
		}()
		e = p.expr(0)
		if p.peek().kind != "eof" {
			p.fail("unexpected %q", p.peek().text)
		}
	}()
	return e, err
}

type parseErr string

func (p *sparser) fail(f string, a ...interface{}) { panic(parseErr(fmt.Sprintf(f, a...))) }
func (p *sparser) peek() tok                        { return p.toks[p.pos] }
func (p *sparser) next() tok                        { t := p.toks[p.pos]; p.pos++; return t }
func (p *sparser) isOp(s string) bool               { t := p.peek(); return t.kind == "op" && t.text == s }
func (p *sparser) expect(s string) {
	if !p.isOp(s) {
		p.fail("expected %q, got %q", s, p.peek().text)
	}
	p.pos++
}

var binPrec = map[string]int{
	"<==>": 1, "==>": 2, "||": 3, "&&": 4,
	"==": 5, "!=": 5, "<": 5, "<=": 5, ">": 5, ">=": 5,
	"+": 6, "-": 6, "|": 6, "^": 6,
	"*": 7, "/": 7, "%": 7, "<<": 7, ">>": 7, "&": 7, "&^": 7,
}

func (p *sparser) expr(minPrec int) *SExpr {
	lhs := p.unary()
	for {
		t := p.peek()
		if t.kind != "op" {
			return lhs
		}
		prec, ok := binPrec[t.text]
		if !ok || prec < minPrec {
			return lhs
		}
		p.pos++
		var rhs *SExpr
		if t.text == "==>" || t.text == "<==>" {
			rhs = p.expr(prec) // right assoc
		} else {
			rhs = p.expr(prec + 1)
		}
		lhs = &SExpr{Kind: KBinary, Op: t.text, Args: []*SExpr{lhs, rhs}}
	}
}

func (p *sparser) unary() *SExpr {
	t := p.peek()
	if t.kind == "op" {
		switch t.text {
		case "!", "-", "*", "&", "^", "+":
			p.pos++
			x := p.unary()
			return &SExpr{Kind: KUnary, Op: t.text, Args: []*SExpr{x}}
		}
	}
	if t.kind == "id" && (t.text == "forall" || t.text == "exists") && p.toks[p.pos+1].kind == "id" {
		p.pos++
		v := p.next()
		if v.kind != "id" {
			p.fail("quantifier variable expected")
		}
		ty := p.typeName()
		p.expect("::")
		body := p.expr(0)
		return &SExpr{Kind: KQuant, Op: t.text, Name: v.text, Type: ty, Args: []*SExpr{body}}
	}
	return p.postfix(p.primary())
}

func (p *sparser) typeName() string {
	var b strings.Builder
	for {
		t := p.peek()
		if t.kind == "op" && (t.text == "*" || t.text == "[" || t.text == "]" || t.text == ".") {
			b.WriteString(t.text)
			p.pos++
			continue
		}
		if t.kind == "int" {
			// the length of an array type: [10]byte
			b.WriteString(t.text)
			p.pos++
			continue
		}
		if t.kind == "id" {
			b.WriteString(t.text)
			p.pos++
			// continue only if followed by '.' or was preceded by incomplete
			if p.isOp(".") {
				continue
			}
			return b.String()
		}
		p.fail("type expected, got %q", t.text)
	}
}

func (p *sparser) primary() *SExpr {
	t := p.next()
	switch t.kind {
	case "id":
		return &SExpr{Kind: KIdent, Name: t.text}
	case "int":
		return &SExpr{Kind: KInt, Name: t.text}
	case "str":
		return &SExpr{Kind: KStr, Name: t.text}
	case "char":
		return &SExpr{Kind: KChar, Name: t.text}
	case "op":
		if t.text == "(" {
			// parenthesised expression or pointer type conversion (*T)(x) - not supported
			e := p.expr(0)
			p.expect(")")
			return e
		}
		if t.text == "[" {
			// slice type: []byte(x) as a conversion, or []*pkg.T as a type argument
			p.expect("]")
			return &SExpr{Kind: KIdent, Name: "[]" + p.typeName()}
		}
	}
	p.fail("unexpected %q", t.text)
	return nil
}

func (p *sparser) postfix(e *SExpr) *SExpr {
	for {
		switch {
		case p.isOp("."):
			p.pos++
			t := p.next()
			if t.kind == "op" && t.text == "*" {
				e = &SExpr{Kind: KStar, Args: []*SExpr{e}}
				continue
			}
			if t.kind != "id" && t.kind != "int" {
				p.fail("selector expected")
			}
			if e.Kind == KIdent && e.Name == "result" && t.kind == "int" {
				e = &SExpr{Kind: KIdent, Name: "result_" + t.text}
				continue
			}
			e = &SExpr{Kind: KSel, Name: t.text, Args: []*SExpr{e}}
		case p.isOp("("):
			p.pos++
			args := []*SExpr{e}
			for !p.isOp(")") {
				args = append(args, p.expr(0))
				if p.isOp(",") {
					p.pos++
				} else if !p.isOp(")") {
					p.fail("expected , or ) in call, got %q", p.peek().text)
				}
			}
			p.expect(")")
			e = &SExpr{Kind: KCall, Args: args}
		case p.isOp("["):
			p.pos++
			if p.isOp("*") {
				p.pos++
				p.expect("]")
				e = &SExpr{Kind: KStar, Op: "[]", Args: []*SExpr{e}}
				continue
			}
			var lo, hi *SExpr
			if !p.isOp(":") {
				lo = p.expr(0)
			}
			if p.isOp(":") {
				p.pos++
				if !p.isOp("]") {
					hi = p.expr(0)
				}
				p.expect("]")
				e = &SExpr{Kind: KSlice, Args: []*SExpr{e, lo, hi}}
			} else {
				p.expect("]")
				e = &SExpr{Kind: KIndex, Args: []*SExpr{e, lo}}
			}
		default:
			return e
		}
	}
}
