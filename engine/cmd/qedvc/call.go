package main

import (
	"fmt"
	"go/types"
	"os"
	"strings"

	"golang.org/x/tools/go/ssa"
)

func (st *State) calleeValue(cc *ssa.CallCommon) Value {
	return st.eval(cc.Value)
}

type callOpts struct {
	args    []Value // pre-evaluated (deferred)
	fnv     *Value
	discard bool
	after   bool // running from RunDefers
}

// call handles a call instruction. Returns forks (none today).
func (st *State) call(f *Frame, ins ssa.Instruction, cc *ssa.CallCommon, opts *callOpts, _ bool) []*State {
	if opts == nil {
		opts = &callOpts{}
	}
	resT := cc.Signature().Results()
	setResult := func(v Value) {
		if opts.discard {
			return
		}
		if val, ok := ins.(ssa.Value); ok {
			f.regs[val] = v
		}
	}
	var args []Value
	if opts.args != nil {
		args = opts.args
	} else {
		for _, a := range cc.Args {
			args = append(args, st.eval(a))
		}
	}
	ord := st.eng.ordinal(f.fn, ins, "call")
	// builtins
	if b, ok := cc.Value.(*ssa.Builtin); ok {
		setResult(st.builtin(f, ins, b, cc, args))
		return nil
	}
	// interface method call
	if cc.IsInvoke() {
		recv := st.eval(cc.Value)
		if opts.fnv != nil {
			recv = *opts.fnv
		}
		st.panicOb2(f, ins, "nil:"+ord, not(eq(app("i_tag", recv.Term), "0")), "method call on nil interface ("+cc.Method.Name()+")")
		c := st.eng.methContract[cc.Method]
		if c == nil {
			// try the interface method by name on embedded interfaces
			c = st.eng.lookupIfaceContract(cc.Method)
		}
		all := append([]Value{recv}, args...)
		if c != nil {
			st.calleePkgs = st.eng.implementerPkgs(cc.Method)
			res := st.applyContract(f, ins, c, nil, cc.Method.Type().(*types.Signature), all, cc.Method.Name(), ord)
			st.calleePkgs = nil
			setResult(res)
			return nil
		}
		if st.eng.isPureMethod(cc.Method) {
			setResult(st.freshResult(cc.Method.Name(), resT))
			return nil
		}
		st.frameCheckEntry(ins, modEntry{kind: "all"}, "frame:unknown-"+ord)
		st.calleePkgs = st.eng.implementerPkgs(cc.Method)
		st.havocAll("call of interface method " + cc.Method.FullName() + " (no contract)")
		setResult(st.freshResult(cc.Method.Name(), resT))
		return nil
	}
	fnv := st.eval(cc.Value)
	if opts.fnv != nil {
		fnv = *opts.fnv
	}
	if fnv.Fn == nil {
		// call through an unknown function value
		iterated := false
		parName := ""
		switch v := cc.Value.(type) {
		case *ssa.Parameter:
			parName = v.Name()
		case *ssa.UnOp:
			// naive form: parameters live in a local cell
			if al, ok := v.X.(*ssa.Alloc); ok && !al.Heap {
				for _, p := range f.fn.Params {
					if p.Name() == al.Comment {
						parName = al.Comment
					}
				}
			}
		}
		if parName != "" && f == st.frames[0] && f.contract != nil {
			for _, it := range f.contract.Iterates {
				if it.Param == parName {
					// the callback this function is declared to iterate: its effects are accounted for
					// at the call sites of this function (callback iteration); here, every value handed
					// to it must satisfy the `where` clause the callers rely on
					iterated = true
					env := st.specEnv(f, nil, false)
					if len(args) > 0 {
						env.vars[it.Var] = args[0]
					}
					cl := &Clause{Src: it.Src, File: f.contract.File, Line: f.contract.Line}
					st.oblige("pre", "iter-arg:"+ord, st.evalBool(it.Where, env, cl), "argument of the iterated callback: "+it.Src+" at "+st.pos(ins))
				}
			}
		}
		if fnv.Term != "" && !iterated {
			st.panicOb2(f, ins, "nilfunc:"+ord, not(eq(fnv.Term, nilRef)), "call of nil function value")
		}
		if iterated && !(fnv.Term != "" && st.known[app("fn_pure", fnv.Term)]) {
			st.havocAll("the iterated callback " + cc.Value.Name() + " runs (effects framed by the caller)")
		} else if fnv.Term != "" && st.known[app("fn_pure", fnv.Term)] {
			st.res.Assumed["function value "+cc.Value.Name()+" in "+f.fn.Name()+" is pure (stated as a precondition)"] = true
		} else {
			st.frameCheckEntry(ins, modEntry{kind: "all"}, "frame:unknown-"+ord)
			st.havocAll("call through function value " + cc.Value.Name() + " in " + f.fn.Name())
		}
		st.res.Assumed["calls through function values (here in "+f.fn.Name()+") are assumed not to panic"] = true
		res := st.freshResult("dyncall", resT)
		if fnv.Term != "" && st.known[app("fn_pure", fnv.Term)] && res.Tuple == nil && res.S == SBool {
			// a pure predicate: what it answers is a function of the function value and the
			// arguments (the same term that apply(f, ...) stands for in specifications)
			if name, ts, ok := st.fnAppTerm(fnv.Term, args); ok {
				st.assume(eq(res.Term, app(name, ts...)))
			}
		}
		if fnv.Term != "" {
			st.eng.pre.Fun("fn_ret_nonnil", "(Ref) Bool")
			nn := app("fn_ret_nonnil", fnv.Term)
			rs := res.Tuple
			if rs == nil && res.Term != "" {
				rs = []Value{res}
			}
			for _, r := range rs {
				switch r.S {
				case SRef:
					st.assume(imp(nn, not(eq(r.Term, nilRef))))
				case SIface:
					st.assume(imp(nn, not(eq(app("i_tag", r.Term), "0"))))
					if r.T != nil && strings.HasSuffix(typeStr(r.T), "crypto/hashing.Hasher") {
						st.eng.pre.Fun("fn_hashlen", "(Ref) (_ BitVec 16)")
						st.eng.pre.Fun("iface_hashlen", "(Iface) (_ BitVec 16)")
						st.assume(eq(app("iface_hashlen", r.Term), app("fn_hashlen", fnv.Term)))
					}
				}
			}
		}
		setResult(res)
		return nil
	}
	callee := fnv.Fn
	if c := st.eng.fnContract[callee]; c != nil && !c.Inline {
		st.calleePkgs = []string{fnPkgPath(callee)}
		res := st.applyContract(f, ins, c, callee, callee.Signature, args, shortName(callee), ord)
		st.calleePkgs = nil
		setResult(res)
		return nil
	}
	if st.eng.isPureFn(callee) {
		res := st.freshResult(callee.Name(), resT)
		if st.eng.nonNilValueFn(callee) {
			rs := res.Tuple
			if rs == nil && res.Term != "" {
				rs = []Value{res}
			}
			for _, r := range rs {
				switch r.S {
				case SRef:
					st.assume(not(eq(r.Term, nilRef)))
				case SIface:
					st.assume(not(eq(app("i_tag", r.Term), "0")))
				}
			}
		}
		setResult(res)
		return nil
	}
	// inline module functions without a contract
	if callee.Blocks != nil && st.eng.inModule(callee) {
		depth := 0
		rec := false
		for _, fr := range st.frames {
			if fr.retTo != nil {
				depth++
			}
			if fr.fn == callee {
				rec = true
			}
		}
		if !rec && depth < st.eng.MaxInline {
			nf := st.newFrame(callee, nil)
			for i, p := range callee.Params {
				if i < len(args) {
					nf.regs[p] = args[i]
					nf.params = append(nf.params, args[i])
				}
			}
			for i, fv := range callee.FreeVars {
				if i < len(fnv.Bind) {
					nf.fvCells[fv] = fnv.Bind[i]
				}
			}
			if len(fnv.Bind) < len(callee.FreeVars) {
				st.res.Errors = append(st.res.Errors, "closure "+callee.Name()+" called without bindings")
			}
			nf.retTo = ins
			nf.discard = opts.discard
			nf.afterDefers = opts.after
			nf.inlTag = f.inlTag + "in:" + shortName(callee) + "@" + strings.TrimPrefix(ord, "call@") + ":"
			// implicit: pointer receiver must be non-nil is checked by the body itself
			st.frames = append(st.frames, nf)
			return nil
		}
		if rec {
			st.res.note("recursive call of " + shortName(callee) + " without contract: havocked")
		} else {
			st.res.note("inline depth exceeded at " + shortName(callee) + ": havocked")
		}
	}
	st.frameCheckEntry(ins, modEntry{kind: "all"}, "frame:unknown-"+ord)
	st.calleePkgs = []string{fnPkgPath(callee)}
	st.havocAll("call of " + shortName(callee) + " (no contract, no body)")
	setResult(st.freshResult(callee.Name(), resT))
	return nil
}

func fnPkgPath(fn *ssa.Function) string {
	for fn.Parent() != nil {
		fn = fn.Parent()
	}
	if fn.Pkg != nil {
		return fn.Pkg.Pkg.Path()
	}
	if fn.Object() != nil && fn.Object().Pkg() != nil {
		return fn.Object().Pkg().Path()
	}
	return "?"
}

func shortName(fn *ssa.Function) string {
	k := fnKey(fn)
	if i := strings.Index(k, "."); i >= 0 {
		// drop package for readability when unambiguous
		parts := strings.Split(k, ".")
		if len(parts) > 2 {
			return strings.Join(parts[1:], ".")
		}
	}
	return k
}

func (st *State) panicOb2(f *Frame, ins ssa.Instruction, name, goal, what string) {
	if other, rec := st.maybePanic(goal); rec {
		if other != nil {
			st.pendingForks = append(st.pendingForks, other)
		}
		st.assume(goal)
		return
	}
	if st.uncheckedPanics() {
		st.assume(goal)
		return
	}
	st.oblige("panic", "panic:"+name, goal, what+" at "+st.pos(ins))
	st.assume(goal)
}

func (e *Engine) lookupIfaceContract(m *types.Func) *Contract {
	// a method reached through an embedding interface has a distinct *types.Func only if redeclared
	for k, c := range e.methContract {
		if k.Name() == m.Name() && k.Pkg() == m.Pkg() && types.Identical(k.Type().(*types.Signature).Recv().Type(), m.Type().(*types.Signature).Recv().Type()) {
			return c
		}
	}
	return nil
}

func (e *Engine) isPureMethod(m *types.Func) bool {
	if m.Pkg() == nil {
		return m.Name() == "Error" // error.Error()
	}
	p := m.Pkg().Path()
	if e.purePkgs[p] {
		return true
	}
	for pp := range e.purePkgs {
		if strings.HasSuffix(pp, "/...") && strings.HasPrefix(p, strings.TrimSuffix(pp, "/...")) {
			return true
		}
	}
	return false
}

func (st *State) freshResult(name string, res *types.Tuple) Value {
	switch res.Len() {
	case 0:
		return Value{S: "Tuple"}
	case 1:
		return st.freshValue("r_"+name, res.At(0).Type())
	}
	return st.freshValue("r_"+name, res)
}

// applyContract: assert pre, havoc frame, assume post.
func (st *State) applyContract(f *Frame, ins ssa.Instruction, c *Contract, callee *ssa.Function, sig *types.Signature, args []Value, name, ord string) Value {
	c.Used = true
	if c.Trusted {
		st.res.Assumed[c.Pkg+"."+c.Name] = true
	}
	if c.UncheckedPanics {
		st.res.Assumed["callee "+c.Pkg+"."+c.Name+" is assumed not to panic (unchecked_panics: its contract is about the runs that complete)"] = true
	}
	// `at <callee> assert ...` clauses of the function under proof: over its own locals, here
	atName := name
	if top := st.frames[0]; f == top && top.contract != nil && len(top.contract.AtAsserts[name]) == 0 && len(top.contract.AtAsserts[c.Name]) > 0 {
		// (an interface method is called by its bare name: the clause names it Type.Method, as
		// its contract does)
		atName = c.Name
	} else if callee != nil && callee.Signature.Recv() == nil && callee.Parent() == nil {
		// (a plain function is known as pkg/path.name: the clause may give the bare name)
		if top := st.frames[0]; f == top && top.contract != nil && len(top.contract.AtAsserts[name]) == 0 && len(top.contract.AtAsserts[callee.Name()]) > 0 {
			atName = callee.Name()
		}
	}
	if top := st.frames[0]; f == top && top.contract != nil && len(top.contract.AtAsserts[atName]) > 0 {
		aenv := st.specEnv(f, nil, false)
		// (arg0, arg1, ...: the values handed to the callee, the receiver first)
		for i, av := range args {
			aenv.vars[fmt.Sprintf("arg%d", i)] = av
		}
		for i, a := range top.contract.AtAsserts[atName] {
			st.oblige("pre", fmt.Sprintf("assert:at:%s@%s:%s", atName, strings.TrimPrefix(ord, "call@"), clauseLabel(a, i)), st.evalBool(a.Expr, aenv, a), a.Src+"  [at the call of "+atName+", "+st.pos(ins)+"]")
		}
		if top.contract.atUsed == nil {
			top.contract.atUsed = map[string]bool{}
		}
		top.contract.atUsed[atName] = true
	}
	env := &specEnv{st: st, vars: map[string]Value{}, heap: st.heap, old: st.heap, topOld: st.allocTop}
	// parameter names
	var names []string
	if callee != nil && len(callee.Params) == 0 && (sig.Params().Len() > 0 || sig.Recv() != nil) {
		// external function: parameter names from the signature
		if sig.Recv() != nil {
			n := sig.Recv().Name()
			if n == "" || n == "_" {
				n = "self"
			}
			names = append(names, n)
		}
		for i := 0; i < sig.Params().Len(); i++ {
			n := sig.Params().At(i).Name()
			if n == "" || n == "_" {
				n = fmt.Sprintf("arg%d", i)
			}
			names = append(names, n)
		}
		if callee.Pkg != nil {
			env.pkg = callee.Pkg.Pkg
		}
	} else if callee != nil {
		for _, p := range callee.Params {
			names = append(names, p.Name())
		}
		if callee.Pkg != nil {
			env.pkg = callee.Pkg.Pkg
		} else if callee.Parent() != nil {
			p := callee
			for p.Parent() != nil {
				p = p.Parent()
			}
			if p.Pkg != nil {
				env.pkg = p.Pkg.Pkg
			}
		}
		// closures: captured variables by name
		if fnv := f.regs; fnv != nil {
			_ = fnv
		}
	} else {
		if sig.Recv() != nil {
			names = append(names, "self")
		}
		for i := 0; i < sig.Params().Len(); i++ {
			n := sig.Params().At(i).Name()
			if n == "" || n == "_" {
				n = fmt.Sprintf("arg%d", i)
			}
			names = append(names, n)
		}
	}
	if env.pkg == nil {
		if sp := st.eng.ssaPkg(c.Pkg); sp != nil {
			env.pkg = sp.Pkg
		}
	}
	for i, n := range names {
		if i < len(args) {
			env.vars[n] = args[i]
		}
	}
	if sig.Recv() != nil && len(args) > 0 {
		env.vars["self"] = args[0]
	}
	// captured variables of a closure callee: resolve by name from the bindings
	if callee != nil && len(callee.FreeVars) > 0 {
		fnv := st.findClosureValue(f, ins)
		for i, fv := range callee.FreeVars {
			if fnv != nil && i < len(fnv.Bind) && fnv.Bind[i].Loc != nil {
				cv := st.readLoc(fnv.Bind[i].Loc)
				if _, clash := env.vars[fv.Name()]; !clash {
					env.vars[fv.Name()] = cv
				}
			}
		}
	}
	env.oldVars = env.vars
	// implicit precondition: pointer receivers are non-nil
	if sig.Recv() != nil && len(args) > 0 && args[0].S == SRef && args[0].Term != "" {
		if _, isPtr := sig.Recv().Type().Underlying().(*types.Pointer); isPtr {
			st.oblige("pre", fmt.Sprintf("pre:%s@%s:receiver-non-nil", name, strings.TrimPrefix(ord, "call@")), not(eq(args[0].Term, nilRef)), "receiver of "+name+" at "+st.pos(ins))
			st.assume(not(eq(args[0].Term, nilRef)))
		}
	}
	for i, rq := range c.Requires {
		t := st.evalBool(rq.Expr, env, rq)
		st.oblige("pre", fmt.Sprintf("pre:%s@%s:%s", name, strings.TrimPrefix(ord, "call@"), clauseLabel(rq, i)), t, rq.Src+"  [call at "+st.pos(ins)+"]")
		st.assume(t)
	}
	if c.NoReturn {
		// the callee never returns normally (log.Fatal, os.Exit, ...): an explicit panic point
		if i := st.recoveringFrame(); i >= 0 {
			st.havocAll("unwinding from " + name)
			if !st.unwindTo(i) {
				st.dead = true
			}
			return st.freshResult(name, sig.Results())
		}
		if !st.frames[0].contract.mayPanic() {
			st.oblige("panic", "panic:noreturn:"+name+"@"+strings.TrimPrefix(ord, "call@"), "false", name+" does not return; call at "+st.pos(ins))
		}
		st.dead = true
		return st.freshResult(name, sig.Results())
	}
	if c.MayPanic {
		if i := st.recoveringFrame(); i >= 0 {
			other := st.clone()
			other.havocAll("callee " + name + " panicked")
			if other.unwindTo(other.recoveringFrame()) {
				st.pendingForks = append(st.pendingForks, other)
			}
		} else if !st.frames[0].contract.mayPanic() {
			st.oblige("panic", "panic:callee-may-panic:"+name+"@"+strings.TrimPrefix(ord, "call@"), "false", name+" may panic by contract; call at "+st.pos(ins))
		}
	}
	if false {
		st.oblige("panic", "panic:callee-may-panic:"+name+"@"+strings.TrimPrefix(ord, "call@"), "false", name+" may panic by contract; call at "+st.pos(ins))
	}
	// recursion: measure must decrease
	if callee != nil && callee == st.frames[0].fn && c.Decreases != nil {
		m := st.evalSpec(c.Decreases.Expr, env)
		if old, ok := st.frames[0].loopMeasure[nil]; ok {
			st.oblige("decr", "decr:"+name+"@"+strings.TrimPrefix(ord, "call@"), st.measureDecreases(m, old), c.Decreases.Src+"  [recursive call at "+st.pos(ins)+"]")
		}
	}
	if len(c.Iterates) > 0 {
		st.iterateCallbacks(f, ins, c, names, args, env, name, ord)
	}
	// frame
	oldHeap := st.heap.clone()
	oldTop := st.allocTop
	if len(c.Modifies) > 0 {
		ms := &modSet{allocTop: st.allocTop, what: "call " + name}
		for _, m := range c.Modifies {
			ms.entries = append(ms.entries, st.evalLocs(m, env)...)
		}
		for i, en := range ms.entries {
			st.frameCheckEntry(ins, en, fmt.Sprintf("frame:call:%s@%s:%d", name, strings.TrimPrefix(ord, "call@"), i+1))
		}
		// preserved locations: remember, havoc, restore
		type keep struct {
			addr string
			T    types.Type
			v    Value
		}
		var keeps []keep
		for _, p := range c.Preserves {
			func() {
				defer func() {
					if r := recover(); r != nil {
						if _, ok := r.(specErr); !ok {
							panic(r)
						}
					}
				}()
				addr, T := st.evalAddr(p, env)
				keeps = append(keeps, keep{addr, T, st.loadH(st.heap, addr, T)})
			}()
		}
		if callee == nil || !strings.Contains(c.File, "/contracts/trusted/") {
			// module code (or an interface method, which module code may implement)
			st.havocProbes()
		}
		st.havocModset(ms)
		for _, k := range keeps {
			st.storeMem(k.addr, k.T, k.v)
		}
	}
	if !c.Pure {
		nt := st.fresh("top", SInt)
		st.assume(app(">=", nt, st.allocTop))
		st.allocTop = nt
	}
	res := st.freshResult(name, sig.Results())
	env2 := *env
	env2.heap = st.heap
	env2.old = oldHeap
	env2.topOld = oldTop
	if res.Tuple != nil {
		env2.result = res.Tuple
	} else if sig.Results().Len() == 1 {
		env2.result = []Value{res}
	}
	// vacuity guard: what the contract promises must be satisfiable here (a contradictory
	// contract would make every later obligation on this path pass); checked on the
	// first path that reaches each call site, and only reported when the path itself
	// (the hypotheses before the contract is assumed) is feasible
	var vac *VC
	if len(c.Ensures)+len(c.Assumes) > 0 {
		if st.res.covSeen == nil {
			st.res.covSeen = map[string]bool{}
		}
		key := "vacuity:after:" + name + "@" + strings.TrimPrefix(ord, "call@")
		if tag := st.top().inlTag; tag != "" {
			key = "in:" + tag + key
		}
		if !st.res.covSeen[key] {
			st.res.covSeen[key] = true
			vac = &VC{Name: key, Func: st.res.Key, Kind: "vacuity", Goal: "true", ExpectSat: true,
				PreDecls: st.decls.slice(), PreAsserts: st.asserts.slice(), Note: "the contract of " + name + " can be met at " + st.pos(ins)}
		}
	}
	for _, en := range c.Ensures {
		st.assume(st.evalBool(en.Expr, &env2, en))
	}
	for _, en := range c.Assumes {
		st.assume(st.evalBool(en.Expr, &env2, en))
		st.res.Assumed["UNVERIFIED clause of "+c.Pkg+"."+c.Name+": "+en.Src] = true
	}
	if vac != nil {
		vac.Decls, vac.Asserts = st.decls.slice(), st.asserts.slice()
		st.res.VCs = append(st.res.VCs, vac)
	}
	return res
}

func (c *Contract) mayPanic() bool { return c != nil && (c.MayPanic || c.UncheckedPanics) }

// findClosureValue finds the closure value being called by ins (for captured-variable names).
func (st *State) findClosureValue(f *Frame, ins ssa.Instruction) *Value {
	var cc *ssa.CallCommon
	switch x := ins.(type) {
	case *ssa.Call:
		cc = &x.Call
	case *ssa.Defer:
		cc = &x.Call
	case *ssa.Go:
		cc = &x.Call
	}
	if cc == nil {
		return nil
	}
	v := st.eval(cc.Value)
	return &v
}

// ---------------------------------------------------------------------------
// frames

func (st *State) covered(ms *modSet, addr string) string {
	var alts []string
	for _, en0 := range ms.entries {
		en := en0
		if en.cond == "false" {
			continue
		}
		if en.cond != "" {
			// conditional entry: contributes cond && (its coverage)
			sub := &modSet{entries: []modEntry{{kind: en.kind, ref: en.ref, name: en.name, T: en.T}}, allocTop: ms.allocTop}
			c := st.covered(sub, addr)
			alts = append(alts, and(en.cond, c))
			continue
		}
		switch en.kind {
		case "all":
			return "true"
		case "allbut":
			// a direct write is covered unless it may land in an array of the excluded element
			// type (decided from the static type of the address written)
			elemT := en.T.Underlying().(*types.Slice).Elem()
			if st.frameIns != nil && !mayWriteArrayOf(st.frameIns, elemT) {
				return "true"
			}
			if st.frameIns == nil && st.frameT != nil && !typeWithin(st.frameT, elemT) {
				return "true"
			}
		case "fieldall":
			if strings.HasPrefix(addr, "(sub ") {
				a := splitTop(addr[5 : len(addr)-1])
				if a[1] == en.name {
					return "true"
				}
			} else {
				alts = append(alts, and(app("(_ is sub)", addr), eq(app("sub_f", addr), en.name)))
			}
		case "cell":
			alts = append(alts, eq(addr, en.ref))
			// a struct-typed cell covers its fields
			if _, ok := en.T.Underlying().(*types.Struct); ok {
				alts = append(alts, and(app("(_ is sub)", addr), eq(app("sub_p", addr), en.ref)))
			}
		case "fields":
			if strings.HasPrefix(addr, "(sub ") {
				a := splitTop(addr[5 : len(addr)-1])
				alts = append(alts, eq(a[0], en.ref))
				if strings.HasPrefix(a[0], "(sub ") {
					b := splitTop(a[0][5 : len(a[0])-1])
					alts = append(alts, eq(b[0], en.ref))
				}
			} else {
				alts = append(alts, and(app("(_ is sub)", addr), eq(app("sub_p", addr), en.ref)))
			}
		case "elems":
			if strings.HasPrefix(addr, "(elem ") {
				a := splitTop(addr[6 : len(addr)-1])
				alts = append(alts, eq(a[0], en.ref))
			} else {
				alts = append(alts, and(app("(_ is elem)", addr), eq(app("elem_p", addr), en.ref)))
			}
		}
	}
	alts = append(alts, app(">=", rootID(addr), ms.allocTop))
	return or(alts...)
}

func (st *State) frameCheck(ins ssa.Instruction, addr string, what string) {
	f := st.top()
	st.frameIns, st.frameT = ins, nil
	defer func() { st.frameIns = nil }()
	for _, ms := range st.modsets {
		g := st.covered(ms, addr)
		name := "frame:" + st.eng.ordinal(f.fn, ins, "frame")
		if ms.what != "function" {
			name += ":" + ms.what
		}
		st.oblige("frame", name, g, "write outside the declared frame of the "+ms.what+" at "+st.pos(ins))
	}
}

// havocProbes forgets every ghost probe (see GhostVar.Probe).
func (st *State) havocProbes() {
	for _, n := range sortedKeys(st.eng.cs.Ghosts) {
		g := st.eng.cs.Ghosts[n]
		if !g.Probe {
			continue
		}
		_, s := st.ghostType(g)
		_ = st.heapGet(st.heap, "ghost_"+n, s)
		st.heap.m["ghost_"+n] = st.fresh("ghost_"+n, s)
	}
}

func (st *State) frameCheckMap(ins ssa.Instruction, m string) {
	st.frameCheckEntry(ins, modEntry{kind: "map", ref: m}, "frame:"+st.eng.ordinal(st.top().fn, ins, "frame"))
}

func (st *State) frameCheckEntry(ins ssa.Instruction, en modEntry, name string) {
	if en.kind == "ghost" && (en.name == "ghost_held" || en.name == "ghost_recvs") {
		// lock state: callees are assumed to release what they acquire (not checked);
		// it is exempt from frames so that locking does not have to be declared everywhere
		return
	}
	if en.kind == "ghost" {
		if g := st.eng.cs.Ghosts[strings.TrimPrefix(en.name, "ghost_")]; g != nil && (g.Probe || g.Trace) {
			return // probes are forgotten at every call anyway; traces are exempt by declaration
		}
	}
	for _, ms := range st.modsets {
		var alts []string
		for _, e2 := range ms.entries {
			if e2.cond == "false" {
				continue
			}
			c2 := e2.cond
			if c2 == "" {
				c2 = "true"
			}
			switch {
			case e2.kind == "allbut":
				// everything except the arrays of one element type: an effect is covered when it
				// cannot land in such an array (fresh arrays are covered by the allocTop alternative)
				elemT := e2.T.Underlying().(*types.Slice).Elem()
				switch en.kind {
				case "allbut":
					if types.Identical(en.T.Underlying().(*types.Slice).Elem(), elemT) {
						alts = append(alts, c2)
					}
				case "elems":
					if sl, ok := en.T.Underlying().(*types.Slice); ok && !types.Identical(sl.Elem(), elemT) {
						alts = append(alts, c2)
					}
				case "fields":
					if !typeWithin(en.T, elemT) {
						alts = append(alts, c2)
					}
				case "map":
					alts = append(alts, c2)
				case "fieldall":
					mine := false
					if stt, ok := elemT.Underlying().(*types.Struct); ok {
						for i := 0; i < stt.NumFields(); i++ {
							fa := st.eng.fsub("(mkref 0)", elemT, i)
							if parts := splitTop(fa[5 : len(fa)-1]); parts[1] == en.name {
								mine = true
							}
						}
					}
					if !mine && !typeWithin(en.T, elemT) {
						alts = append(alts, c2)
					}
				}
			case e2.kind == "all" && en.kind == "ghost":
				// ghost variables are not part of "everything": they must be named
			case e2.kind == "all":
				alts = append(alts, c2)
			case e2.kind == "fieldall" && en.kind == "fieldall":
				if e2.name == en.name {
					alts = append(alts, c2)
				}
			case en.kind == "cell":
			case e2.kind == en.kind && en.kind == "ghost":
				if e2.name == en.name {
					alts = append(alts, "true")
				}
			case e2.kind == en.kind:
				alts = append(alts, eq(e2.ref, en.ref))
			}
		}
		var g string
		switch en.kind {
		case "cell":
			st.frameIns, st.frameT = nil, en.T
			g = st.covered(ms, en.ref)
			st.frameT = nil
		case "all", "fieldall", "allbut":
			g = or(alts...)
		case "ghost":
			g = or(alts...)
		default:
			alts = append(alts, app(">=", rootID(en.ref), ms.allocTop))
			g = or(alts...)
		}
		if en.cond != "" {
			g = imp(en.cond, g)
		}
		n := name
		if ms.what != "function" {
			n += ":" + ms.what
		}
		st.oblige("frame", n, g, fmt.Sprintf("effect (%s) outside the declared frame of the %s at %s", en.kind, ms.what, st.pos(ins)))
	}
}

func (st *State) havocModset(ms *modSet) {
	te := st.eng.te
	for _, en := range ms.entries {
		if en.cond == "false" {
			continue
		}
		if en.cond != "" && st.known[en.cond] == false && st.known[not(en.cond)] {
			continue
		}
		switch en.kind {
		case "allbut":
			// (the excluded arrays keep their contents, which is not used: forgetting them too is sound)
			st.havocAll("frame: everything but the arrays of one type")
		case "all":
			st.havocAll("frame: everything")
			// (ghost variables are not part of "everything": go on to the named ones)
		case "fieldall":
			// coarse: every cell of that sort may have changed
			s := te.SortOf(en.T)
			name := memName(s)
			if n, ok := immArray("(sub (mkref 0) "+en.name+")", s); ok {
				name = n
			}
			_ = st.heapGet(st.heap, name, ArrSort(SRef, s))
			st.heap.m[name] = st.fresh("hv_"+name, ArrSort(SRef, s))
		case "cell":
			st.havocCell(en.ref, en.T)
		case "fields":
			st.havocCell(en.ref, en.T)
		case "elems":
			sl := en.T.Underlying().(*types.Slice)
			es := te.SortOf(sl.Elem())
			if _, isStruct := sl.Elem().Underlying().(*types.Struct); isStruct {
				st.havocAll("frame: elements of a slice of structs")
				return
			}
			arr := st.elemsArr(st.heap, es)
			na := st.fresh("hv_elems", ArrSort(BV(64), es))
			st.heapSet(elemsName(es), ArrSort(SRef, ArrSort(BV(64), es)), app("store", arr, en.ref, na))
			if tr := st.typedRef("ELEM", sl.Elem()); tr != "true" {
				// whatever was written, the elements are typed objects that exist by now
				el := app("select", na, "tq_k")
				body := and(strings.ReplaceAll(tr, "ELEM", el), app("<", app("rid", el), st.allocTop))
				st.assume(fmt.Sprintf("(forall ((tq_k (_ BitVec 64))) (! %s :pattern (%s)))", body, el))
			}
		case "map":
			mt := en.T.Underlying().(*types.Map)
			hasA, valA, ks, vs := st.mapArrays(st.heap, mt)
			st.heapSet(mapHasName(ks, vs), ArrSort(SRef, ArrSort(ks, SBool)), app("store", hasA, en.ref, st.fresh("hv_has", ArrSort(ks, SBool))))
			st.heapSet(mapValName(ks, vs), ArrSort(SRef, ArrSort(ks, vs)), app("store", valA, en.ref, st.fresh("hv_val", ArrSort(ks, vs))))
			ml := st.heapGet(st.heap, "maplen", ArrSort(SRef, BV(64)))
			st.heapSet("maplen", ArrSort(SRef, BV(64)), app("store", ml, en.ref, st.fresh("hv_len", BV(64))))
		case "ghost":
			s := st.heap.sorts[en.name]
			if s == "" {
				for _, g := range st.eng.cs.Ghosts {
					if "ghost_"+g.Name == en.name {
						_, s = st.ghostType(g)
					}
				}
			}
			_ = st.heapGet(st.heap, en.name, s)
			st.heap.m[en.name] = st.fresh(en.name, s)
		}
	}
}

func (st *State) havocCell(addr string, T types.Type) {
	te := st.eng.te
	switch u := T.Underlying().(type) {
	case *types.Struct:
		for i := 0; i < u.NumFields(); i++ {
			// an object named explicitly in a frame may be (re)initialised by the callee,
			// immutable fields included; only unnamed effects ("everything") spare them
			st.havocCell(st.eng.fsub(addr, T, i), u.Field(i).Type())
		}
		return
	case *types.Array:
		es := te.SortOf(u.Elem())
		arr := st.elemsArr(st.heap, es)
		st.heapSet(elemsName(es), ArrSort(SRef, ArrSort(BV(64), es)), app("store", arr, addr, st.fresh("hv_arr", ArrSort(BV(64), es))))
		return
	}
	v := st.freshValue("hv", T)
	st.storeMem(addr, T, v)
}

// ---------------------------------------------------------------------------
// defers, go

func (st *State) runDefers(f *Frame) []*State {
	for len(f.defers) > 0 {
		d := f.defers[len(f.defers)-1]
		f.defers = f.defers[:len(f.defers)-1]
		nframes := len(st.frames)
		fnv := d.fnv
		st.call(f, d.instr, d.call, &callOpts{args: d.args, fnv: &fnv, discard: true, after: true}, false)
		if len(st.frames) > nframes {
			// inlined: the rest of the defers run when that frame returns
			return nil
		}
	}
	return nil
}

func (st *State) goStmt(f *Frame, x *ssa.Go) {
	fnv := st.eval(x.Call.Value)
	if !x.Call.IsInvoke() && fnv.Fn != nil && fnv.Fn.Parent() == f.fn {
		// fork-join with a local closure: sequentialised (declared rewriting)
		st.res.note("go statement on a local closure sequentialised (fork-join rewriting)")
		st.res.Assumed["fork-join: goroutine body in "+f.fn.Name()+" runs to completion at the go statement (disjoint frames not checked)"] = true
		st.call(f, x, &x.Call, &callOpts{discard: true}, false)
		return
	}
	st.res.note("go statement ignored (no interference assumed)")
	st.res.Assumed["goroutines started by "+f.fn.Name()+" do not interfere with the sequential contract"] = true
}

// ---------------------------------------------------------------------------
// builtins

func (st *State) builtin(f *Frame, ins ssa.Instruction, b *ssa.Builtin, cc *ssa.CallCommon, args []Value) Value {
	te := st.eng.te
	intT := types.Typ[types.Int]
	switch b.Name() {
	case "len", "cap":
		x := args[0]
		switch u := cc.Args[0].Type().Underlying().(type) {
		case *types.Slice:
			return Value{T: intT, S: BV(64), Term: app("s_"+b.Name(), x.Term)}
		case *types.Basic:
			return Value{T: intT, S: BV(64), Term: app("slen", x.Term)}
		case *types.Array:
			return Value{T: intT, S: BV(64), Term: bvInt(u.Len(), 64)}
		case *types.Pointer:
			if at, ok := u.Elem().Underlying().(*types.Array); ok {
				return Value{T: intT, S: BV(64), Term: bvInt(at.Len(), 64)}
			}
		case *types.Map:
			ml := st.heapGet(st.heap, "maplen", ArrSort(SRef, BV(64)))
			v := Value{T: intT, S: BV(64), Term: st.define("maplen", ite(eq(x.Term, nilRef), bvInt(0, 64), app("select", ml, x.Term)), BV(64))}
			st.assume(app("bvsge", v.Term, bvInt(0, 64)))
			return v
		case *types.Chan:
			v := st.freshValue("chanlen", intT)
			st.assume(app("bvsge", v.Term, bvInt(0, 64)))
			return v
		}
	case "append":
		return st.appendBuiltin(cc, args)
	case "copy":
		dst, src := args[0], args[1]
		n := st.freshValue("copied", intT)
		srcLen := app("s_len", src.Term)
		if src.S == SStr {
			srcLen = app("slen", src.Term)
		}
		dl := app("s_len", dst.Term)
		st.assume(eq(n.Term, ite(app("bvslt", dl, srcLen), dl, srcLen)))
		sl := cc.Args[0].Type().Underlying().(*types.Slice)
		es := te.SortOf(sl.Elem())
		st.frameCheckEntry(ins, modEntry{kind: "elems", ref: app("s_ref", dst.Term), T: cc.Args[0].Type()}, "frame:copy@"+strings.TrimPrefix(st.eng.ordinal(f.fn, ins, "call"), "call@"))
		if _, isStruct := sl.Elem().Underlying().(*types.Struct); isStruct {
			st.havocAll("copy into a slice of structs")
			return n
		}
		arr := st.elemsArr(st.heap, es)
		if st.eng.freshAppend {
			// older model: the destination array is forgotten as a whole
			na := st.fresh("copied_arr", ArrSort(BV(64), es))
			st.heapSet(elemsName(es), ArrSort(SRef, ArrSort(BV(64), es)), ite(eq(n.Term, bvInt(0, 64)), arr, app("store", arr, app("s_ref", dst.Term), na)))
			if es == BV(8) && src.S == SSlice {
				full := and(eq(n.Term, dl), eq(n.Term, srcLen))
				st.assume(imp(full, eq(app("bseq", na, app("s_off", dst.Term), dl), app("bseq", app("select", arr, app("s_ref", src.Term)), app("s_off", src.Term), srcLen))))
			}
			return n
		}
		// exact: elements [doff, doff+n) of the destination's array become the first n source
		// elements (read before anything is written, so overlapping copies behave like memmove);
		// every other element of that array stays
		as := ArrSort(BV(64), es)
		dref, doff := app("s_ref", dst.Term), app("s_off", dst.Term)
		dArr := app("select", arr, dref)
		srcAt := func(k string) string {
			if src.S == SStr {
				return app("str_at", src.Term, k)
			}
			return app("select", app("select", arr, app("s_ref", src.Term)), app("bvadd", app("s_off", src.Term), k))
		}
		var na string
		var L int64 = -1
		for k := int64(0); k <= 16; k++ {
			if dl == bvInt(k, 64) {
				L = k
			}
		}
		if L >= 0 {
			na = dArr
			for k := int64(0); k < L; k++ {
				at := app("bvadd", doff, bvInt(k, 64))
				na = app("store", na, at, ite(app("bvslt", bvInt(k, 64), n.Term), srcAt(bvInt(k, 64)), app("select", dArr, at)))
			}
			na = st.define("copied_arr", na, as)
		} else {
			na = st.fresh("copied_arr", as)
			end := app("bvadd", doff, n.Term)
			st.assume(fmt.Sprintf("(forall ((i (_ BitVec 64))) (! (=> (or (bvslt i %s) (bvsge i %s)) (= (select %s i) (select %s i))) :pattern ((select %s i))))", doff, end, na, dArr, na))
			st.assume(fmt.Sprintf("(forall ((i (_ BitVec 64))) (! (=> (and (bvsle (_ bv0 64) i) (bvslt i %s)) (= (select %s (bvadd %s i)) %s)) :pattern ((select %s (bvadd %s i)))))", n.Term, na, doff, srcAt("i"), na, doff))
			if es == SRef {
				// the same over the absolute index (any read of the copied array triggers it): a shifting
				// copy within one slice of pointers is read back at indices unrelated to doff syntactically
				st.assume(fmt.Sprintf("(forall ((a (_ BitVec 64))) (! (=> (and (bvsle %s a) (bvslt a %s)) (= (select %s a) %s)) :pattern ((select %s a))))", doff, end, na, srcAt(app("bvsub", "a", doff)), na))
			}
		}
		if es == BV(8) {
			// the byte abstraction: the copied range holds the first n source bytes, byte ranges outside it stay
			if src.S == SSlice {
				st.assume(eq(app("bseq", na, doff, n.Term), app("bseq", app("select", arr, app("s_ref", src.Term)), app("s_off", src.Term), n.Term)))
			} else if src.S == SStr {
				st.assume(imp(eq(n.Term, srcLen), eq(app("bseq", na, doff, n.Term), app("str_bytes", src.Term))))
			}
			st.assume(bseqFrame(na, dArr, doff, app("bvadd", doff, n.Term)))
		}
		st.heapSet(elemsName(es), ArrSort(SRef, as), app("store", arr, dref, na))
		return n
	case "delete":
		m, k := args[0], args[1]
		mt := cc.Args[0].Type().Underlying().(*types.Map)
		st.frameCheckMap(ins, m.Term)
		hasA, _, ks, vs := st.mapArrays(st.heap, mt)
		st.heapSet(mapHasName(ks, vs), ArrSort(SRef, ArrSort(ks, SBool)), ite(eq(m.Term, nilRef), hasA, app("store", hasA, m.Term, app("store", app("select", hasA, m.Term), k.Term, "false"))))
		ml := st.heapGet(st.heap, "maplen", ArrSort(SRef, BV(64)))
		nl := st.fresh("maplen", BV(64))
		st.assume(app("bvsge", nl, bvInt(0, 64)))
		st.heapSet("maplen", ArrSort(SRef, BV(64)), app("store", ml, m.Term, nl))
		return Value{S: "Tuple"}
	case "print", "println":
		return Value{S: "Tuple"}
	case "recover":
		if st.panicking {
			st.panicking = false
			v := st.freshValue("recovered", cc.Signature().Results().At(0).Type())
			st.assume(not(eq(app("i_tag", v.Term), "0")))
			return v
		}
		return Value{T: cc.Signature().Results().At(0).Type(), S: SIface, Term: nilIface}
	case "close":
		return Value{S: "Tuple"}
	case "ssa:wrapnilchk":
		return args[0]
	case "min", "max":
		if len(args) == 2 && args[0].S.IsBV() {
			o := "bvult"
			if isSigned(args[0].T) {
				o = "bvslt"
			}
			lt := app(o, args[0].Term, args[1].Term)
			if b.Name() == "min" {
				return Value{T: args[0].T, S: args[0].S, Term: ite(lt, args[0].Term, args[1].Term)}
			}
			return Value{T: args[0].T, S: args[0].S, Term: ite(lt, args[1].Term, args[0].Term)}
		}
	}
	if strings.HasPrefix(b.Name(), "ssa:") {
		res := cc.Signature().Results()
		if res.Len() == 1 {
			return st.freshValue(b.Name(), res.At(0).Type())
		}
		return Value{S: "Tuple"}
	}
	st.res.note("builtin " + b.Name() + " havocked")
	res := cc.Signature().Results()
	if res.Len() == 1 {
		return st.freshValue(b.Name(), res.At(0).Type())
	}
	return Value{S: "Tuple"}
}

// fnAppTerm: the uninterpreted application "result of the pure boolean function value f on args".
func (st *State) fnAppTerm(f string, args []Value) (string, []string, bool) {
	name := "fnapp_B"
	sorts := []string{"Ref"}
	ts := []string{f}
	for _, a := range args {
		if a.Term == "" || a.S == "" || a.S == "Tuple" {
			return "", nil, false
		}
		name += "_" + a.S.Mangle()
		sorts = append(sorts, string(a.S))
		ts = append(ts, a.Term)
	}
	st.eng.pre.Fun(name, "("+strings.Join(sorts, " ")+") Bool")
	return name, ts, true
}

// appendStructs: append to a slice of structs. The result is the fresh array r (in-place growth
// is not modelled for slices of structs, see the assumption): its first len(s) elements are
// copies of the old ones, field by field, and the appended ones follow (exact for up to four).
// Struct elements live at (elem ref i), their fields in the per-sort field arrays.
func (st *State) appendStructs(r string, s, t Value, tl string, elemT types.Type) {
	leafs := map[string]Sort{}
	st.sortsOfStore(elemT, leafs)
	base, off, ln := app("s_ref", s.Term), app("s_off", s.Term), app("s_len", s.Term)
	const iv = "qi_app"
	probe := st.loadH(st.heap, elemAddr(base, app("bvadd", off, iv)), elemT).Term
	if strings.Contains(probe, "imm_") || strings.Contains(probe, "pf_") || strings.Contains(probe, "elems_") {
		return // fields in special arrays (immutable, package-private, arrays): nothing is said
	}
	oldElem := probe
	cnt := int64(-1)
	for k := int64(0); k <= 4; k++ {
		if tl == bvInt(k, 64) || strings.HasSuffix(t.Term, " "+bvInt(k, 64)+" "+bvInt(k, 64)+")") {
			cnt = k
		}
	}
	var newVals []Value
	for k := int64(0); k < cnt; k++ {
		newVals = append(newVals, st.loadH(st.heap, elemAddr(app("s_ref", t.Term), app("bvadd", app("s_off", t.Term), bvInt(k, 64))), elemT))
	}
	for name, srt := range leafs {
		if !strings.HasPrefix(name, "mem_") {
			continue
		}
		a := st.heapGet(st.heap, name, srt)
		a2 := st.fresh(name, srt)
		st.heap.m[name] = a2
		// nothing that existed changes: r is a new object
		st.assume(fmt.Sprintf("(forall ((a Ref)) (! (=> (not (= (rid a) (rid %s))) (= (select %s a) (select %s a))) :pattern ((select %s a))))", r, a2, a, a2))
	}
	newElem := st.loadH(st.heap, elemAddr(r, iv), elemT).Term
	st.assume(fmt.Sprintf("(forall ((%s (_ BitVec 64))) (! (=> (and (bvsle (_ bv0 64) %s) (bvslt %s %s)) (= %s %s)) :pattern (%s)))", iv, iv, iv, ln, newElem, oldElem, elemAddr(r, iv)))
	for k, v := range newVals {
		st.storeMem(elemAddr(r, app("bvadd", ln, bvInt(int64(k), 64))), elemT, v)
	}
}

// curIns: the instruction being executed (the frame's index has already moved past it).
func (st *State) curIns() ssa.Instruction {
	f := st.top()
	if f.idx >= 1 && f.idx <= len(f.block.Instrs) {
		return f.block.Instrs[f.idx-1]
	}
	return nil
}

// appendFrameCheck: an append that grows in place writes the backing array of s, which every
// slice sharing that array sees: the array has to be in the frame (or allocated in this call).
func (st *State) appendFrameCheck(s Value) {
	ins := st.curIns()
	if ins == nil {
		return
	}
	ord := strings.TrimPrefix(st.eng.ordinal(st.top().fn, ins, "call"), "call@")
	st.frameCheckEntry(ins, modEntry{kind: "elems", ref: app("s_ref", s.Term), T: s.T}, "frame:append@"+ord)
}

// appendStructsFork: append to a slice of structs, as Go defines it (two paths, like
// appendInPlace): growth in place writes the new elements into the backing array of s when
// their number is known (at most four), and forgets the heap otherwise; growth by
// reallocation is appendStructs.
func (st *State) appendStructsFork(res Value, r string, s, t Value, tl, nl string, elemT types.Type) Value {
	fits := app("bvsle", nl, app("s_cap", s.Term))
	inplace := true
	switch st.appendMode {
	case "fresh":
		inplace = false
	default:
		if fits != "true" && fits != "false" {
			other := st.clone()
			other.appendMode = "fresh"
			other.top().idx--
			st.pendingForks = append(st.pendingForks, other)
		} else if fits == "false" {
			inplace = false
		}
	}
	st.appendMode = ""
	if !inplace {
		st.assume(not(fits))
		st.appendStructs(r, s, t, tl, elemT)
		return res
	}
	st.assume(fits)
	st.appendFrameCheck(s)
	base, off, ln := app("s_ref", s.Term), app("s_off", s.Term), app("s_len", s.Term)
	cnt := int64(-1)
	for k := int64(0); k <= 4; k++ {
		if tl == bvInt(k, 64) || strings.HasSuffix(t.Term, " "+bvInt(k, 64)+" "+bvInt(k, 64)+")") {
			cnt = k
		}
	}
	if cnt < 0 {
		st.havocAll("append in place of an unknown number of structs")
	} else {
		var newVals []Value
		for k := int64(0); k < cnt; k++ {
			newVals = append(newVals, st.loadH(st.heap, elemAddr(app("s_ref", t.Term), app("bvadd", app("s_off", t.Term), bvInt(k, 64))), elemT))
		}
		at := st.define("app_at", app("bvadd", off, ln), BV(64))
		for k, v := range newVals {
			st.storeMem(elemAddr(base, app("bvadd", at, bvInt(int64(k), 64))), elemT, v)
		}
	}
	return Value{T: res.T, S: SSlice, Term: app("mk_slice", base, off, nl, app("s_cap", s.Term))}
}

// bseqFrame: the byte ranges of the array na that lie outside [lo, hi) read as they do in old.
func bseqFrame(na, old, lo, hi string) string {
	max := bvInt(1<<40, 64)
	return fmt.Sprintf("(forall ((a (_ BitVec 64)) (l (_ BitVec 64))) (! (=> (and (bvsle (_ bv0 64) a) (bvsle (_ bv0 64) l) (bvsle a %s) (bvsle l %s) (or (bvsle (bvadd a l) %s) (bvsge a %s))) (= (bseq %s a l) (bseq %s a l))) :pattern ((bseq %s a l))))",
		max, max, lo, hi, na, old, na)
}

// appendInPlace models append as Go defines it: if the new length fits the capacity of s, the
// new elements are written into the backing array of s (every slice sharing that array sees
// them) and the result shares it; otherwise the result is a freshly allocated array holding
// the old elements followed by the new ones. (The in-place write is not checked against the
// frame: it lies beyond the length of s, where the caller's contract cannot name a location.)
func (st *State) appendInPlace(freshRes Value, r string, s, t Value, tl, nl string, es Sort) Value {
	arr := st.elemsArr(st.heap, es)
	as := ArrSort(BV(64), es)
	base, off, ln := app("s_ref", s.Term), app("s_off", s.Term), app("s_len", s.Term)
	fits := app("bvsle", nl, app("s_cap", s.Term))
	// The two outcomes are two paths (the state is forked at the append and the copy re-executes
	// it taking the other branch): each path then has plain store chains, which keeps quantified
	// invariants over appended slices cheap for the solvers.
	inplace := true
	switch st.appendMode {
	case "fresh":
		inplace = false
	default:
		if fits != "true" && fits != "false" {
			other := st.clone()
			other.appendMode = "fresh"
			other.top().idx--
			st.pendingForks = append(st.pendingForks, other)
		} else if fits == "false" {
			inplace = false
		}
	}
	st.appendMode = ""
	oldArr := app("select", arr, base)
	var tb string
	if es == BV(8) {
		tb = st.bytesOf(st.heap, t)
	}
	cnt := int64(-1)
	if t.S != SStr {
		for k := int64(0); k <= 4; k++ {
			if tl == bvInt(k, 64) || strings.HasSuffix(t.Term, " "+bvInt(k, 64)+" "+bvInt(k, 64)+")") {
				cnt = k
			}
		}
	}
	var newArr, at, resOff string // the array the result lives in, where the new elements start, the result's offset
	var res Value
	if inplace {
		st.assume(fits)
		if os.Getenv("QEDVC_APPEND_FRAME") != "" {
			// (opt-in: on the unchanged tree it asks for array-identity postconditions on every
			// function that appends to a slice it was handed or holds in a field, see DESIGN.md 0.7)
			st.appendFrameCheck(s)
		} else {
			st.res.Assumed["in-place append (slices of non-struct elements): the write into the spare capacity is not checked against the frame"] = true
		}
		at = st.define("app_at", app("bvadd", off, ln), BV(64))
		resOff = off
		res = Value{T: freshRes.T, S: SSlice, Term: app("mk_slice", base, off, nl, app("s_cap", s.Term))}
	} else {
		st.assume(not(fits))
		at = ln
		resOff = bvInt(0, 64)
		res = freshRes
	}
	if cnt >= 0 && inplace {
		// a known small number of elements written in place: exact stores
		tArr := app("select", arr, app("s_ref", t.Term))
		ia := oldArr
		for k := int64(0); k < cnt; k++ {
			ia = app("store", ia, app("bvadd", at, bvInt(k, 64)), app("select", tArr, app("bvadd", app("s_off", t.Term), bvInt(k, 64))))
		}
		newArr = st.define("app_in", ia, as)
	} else {
		if inplace {
			newArr = st.fresh("app_in", as)
			// everything outside the appended range stays
			st.assume(fmt.Sprintf("(forall ((i (_ BitVec 64))) (! (=> (or (bvslt i %s) (bvsge i %s)) (= (select %s i) (select %s i))) :pattern ((select %s i))))",
				at, app("bvadd", at, tl), newArr, oldArr, newArr))
		} else {
			newArr = st.fresh("app_arr", as)
			// the old elements are copied to the front of the new array
			st.assume(fmt.Sprintf("(forall ((i (_ BitVec 64))) (! (=> (and (bvsle (_ bv0 64) i) (bvslt i %s)) (= (select %s i) (select %s (bvadd %s i)))) :pattern ((select %s i))))",
				ln, newArr, oldArr, off, newArr))
		}
		if t.S != SStr {
			tArr := app("select", arr, app("s_ref", t.Term))
			if cnt >= 0 {
				for k := int64(0); k < cnt; k++ {
					st.assume(eq(app("select", newArr, app("bvadd", at, bvInt(k, 64))), app("select", tArr, app("bvadd", app("s_off", t.Term), bvInt(k, 64)))))
				}
			} else {
				// (quantifier-free instances for the first two appended elements, if there are that many)
				for k := int64(0); k < 2; k++ {
					v := app("select", tArr, app("bvadd", app("s_off", t.Term), bvInt(k, 64)))
					st.assume(imp(app("bvslt", bvInt(k, 64), tl), eq(app("select", newArr, app("bvadd", at, bvInt(k, 64))), v)))
				}
				// (stated over the absolute index j, so that any read of the new array triggers it)
				st.assume(fmt.Sprintf("(forall ((i (_ BitVec 64))) (! (=> (and (bvsle (_ bv0 64) i) (bvslt i %s)) (= (select %s (bvadd %s i)) (select %s (bvadd %s i)))) :pattern ((select %s (bvadd %s i)))))",
					tl, newArr, at, tArr, app("s_off", t.Term), newArr, at))
			}
		}
	}
	if es == BV(8) {
		// the byte abstraction: the result holds the old bytes followed by the new ones
		ob := app("bseq", oldArr, off, ln)
		st.assume(eq(app("bseq", newArr, resOff, nl), app("cat", ob, tb)))
		st.assume(eq(app("bseq", newArr, resOff, ln), ob))
		if ln == bvInt(1, 64) {
			// appending to a one-byte slice (the table prefix): its bytes are that one byte
			st.eng.pre.Fun("b1", "((_ BitVec 8)) Bytes")
			st.assume(eq(ob, app("b1", app("select", oldArr, off))))
		}
		st.assume(eq(app("bseq", newArr, app("bvadd", resOff, ln), tl), tb))
		if inplace {
			st.assume(bseqFrame(newArr, oldArr, at, app("bvadd", at, tl)))
		}
	}
	if inplace {
		st.heapSet(elemsName(es), ArrSort(SRef, as), app("store", arr, base, newArr))
	} else {
		st.heapSet(elemsName(es), ArrSort(SRef, as), app("store", arr, r, newArr))
	}
	return res
}

// append, older model (QEDVC_FRESH_APPEND=1): the result is a freshly allocated backing array
// holding the old elements followed by the new ones (exact for up to 4 appended elements,
// lengths only beyond that). In-place growth into spare capacity is not modelled.
func (st *State) appendBuiltin(cc *ssa.CallCommon, args []Value) Value {
	te := st.eng.te
	s, t := args[0], args[1]
	T := cc.Args[0].Type()
	sl := T.Underlying().(*types.Slice)
	es := te.SortOf(sl.Elem())
	tl := app("s_len", t.Term)
	if t.S == SStr {
		tl = app("slen", t.Term)
	}
	nl := st.define("applen", app("bvadd", app("s_len", s.Term), tl), BV(64))
	st.assume(app("bvsle", nl, bvInt(1<<40, 64)))
	r := st.newObject()
	nc := st.fresh("appcap", BV(64))
	st.assume(and(app("bvsle", nl, nc), app("bvsle", nc, bvInt(1<<40, 64))))
	res := Value{T: T, S: SSlice, Term: app("mk_slice", r, bvInt(0, 64), nl, nc)}
	if _, isStruct := sl.Elem().Underlying().(*types.Struct); isStruct || (t.S == SStr && es != BV(8)) {
		if isStruct && t.S == SSlice && !st.eng.freshAppend {
			return st.appendStructsFork(res, r, s, t, tl, nl, sl.Elem())
		}
		st.res.Assumed["append returns a fresh backing array (slices of structs: writes into spare capacity of the old one are not modelled)"] = true
		return res
	}
	if !st.eng.freshAppend {
		return st.appendInPlace(res, r, s, t, tl, nl, es)
	}
	st.res.Assumed["append returns a fresh backing array (writes into spare capacity of the old one are not modelled)"] = true
	if t.S == SStr {
		return res
	}
	arr := st.elemsArr(st.heap, es)
	na := st.fresh("app_arr", ArrSort(BV(64), es))
	// old elements: quantifier-free pointwise facts are added on demand via the axiom below
	oldArr := app("select", arr, app("s_ref", s.Term))
	// concrete small appends: exact
	cnt := int64(-1)
	for k := int64(0); k <= 4; k++ {
		if tl == bvInt(k, 64) || strings.HasSuffix(t.Term, " "+bvInt(k, 64)+" "+bvInt(k, 64)+")") {
			cnt = k
		}
	}
	// (forall i. 0<=i<len(s) ==> na[i] = old[off+i]) -- quantified, pattern on na
	q := fmt.Sprintf("(forall ((i (_ BitVec 64))) (! (=> (and (bvsle (_ bv0 64) i) (bvslt i %s)) (= (select %s i) (select %s (bvadd %s i)))) :pattern ((select %s i))))",
		app("s_len", s.Term), na, oldArr, app("s_off", s.Term), na)
	st.assume(q)
	if cnt >= 0 {
		tArr := app("select", arr, app("s_ref", t.Term))
		for k := int64(0); k < cnt; k++ {
			st.assume(eq(app("select", na, app("bvadd", app("s_len", s.Term), bvInt(k, 64))), app("select", tArr, app("bvadd", app("s_off", t.Term), bvInt(k, 64)))))
		}
	} else {
		tArr := app("select", arr, app("s_ref", t.Term))
		q2 := fmt.Sprintf("(forall ((i (_ BitVec 64))) (! (=> (and (bvsle (_ bv0 64) i) (bvslt i %s)) (= (select %s (bvadd %s i)) (select %s (bvadd %s i)))) :pattern ((select %s (bvadd %s i)))))",
			tl, na, app("s_len", s.Term), tArr, app("s_off", t.Term), na, app("s_len", s.Term))
		st.assume(q2)
	}
	st.heapSet(elemsName(es), ArrSort(SRef, ArrSort(BV(64), es)), app("store", arr, r, na))
	return res
}
