package main

type ReplayResult struct {
	Confirmed bool
	Cmd       string
	TestSrc   string
	Output    string
}

// Replay turns the solver's model into a Go test against the real code.
func Replay(eng *Engine, vc *VC, cfg checkCfg, scratch string) *ReplayResult {
	return nil
}
