package main

// Replay: turn the solver's model of a failed obligation into a Go test that
// calls the REAL function in /repo (injected with `go test -overlay`, nothing
// is written into /repo) and checks the violated clause / recovers the panic.

import (
	"bytes"
	"context"
	"encoding/json"
	"fmt"
	"go/types"
	"math/big"
	"os"
	"os/exec"
	"path/filepath"
	"sort"
	"strconv"
	"strings"
	"time"

	"golang.org/x/tools/go/ssa"
)

type ReplayResult struct {
	Confirmed bool
	Cmd       string
	TestSrc   string
	Output    string
	Why       string
}

// ---------------------------------------------------------------------------
// model variables: expansion of the entry state by type

const replayMaxElems = 12

func (st *State) modelVars() []ModelVar {
	var mv []ModelVar
	seen := map[string]bool{}
	add := func(name, term string, s Sort) {
		if term == "" || seen[name] {
			return
		}
		seen[name] = true
		mv = append(mv, ModelVar{Name: name, Term: term, Sort: s})
	}
	var expand func(name string, v Value, depth int)
	expand = func(name string, v Value, depth int) {
		if v.Term == "" || v.T == nil || depth > 5 {
			return
		}
		te := st.eng.te
		switch u := v.T.Underlying().(type) {
		case *types.Basic:
			add(name, v.Term, v.S)
			if v.S == SStr {
				add(name+"#len", app("slen", v.Term), BV(64))
			}
		case *types.Struct:
			for i := 0; i < u.NumFields(); i++ {
				ft := u.Field(i).Type()
				expand(name+"."+u.Field(i).Name(), Value{T: ft, S: te.SortOf(ft), Term: te.StructGet(v.S, i, v.Term)}, depth+1)
			}
		case *types.Pointer:
			add(name, v.Term, SRef)
			if depth >= 4 {
				return
			}
			pv := st.loadH(st.oldHeap, v.Term, u.Elem())
			expand(name+"->", pv, depth+1)
		case *types.Slice:
			add(name+"#ref", app("s_ref", v.Term), SRef)
			add(name+"#len", app("s_len", v.Term), BV(64))
			if depth >= 4 {
				return
			}
			n := replayMaxElems
			if _, isByte := u.Elem().Underlying().(*types.Basic); !isByte {
				n = 4
			}
			for k := 0; k < n; k++ {
				addr := elemAddr(app("s_ref", v.Term), app("bvadd", app("s_off", v.Term), bvInt(int64(k), 64)))
				ev := st.loadH(st.oldHeap, addr, u.Elem())
				expand(fmt.Sprintf("%s[%d]", name, k), ev, depth+1)
			}
		case *types.Map:
			add(name, v.Term, SRef)
			n := 0
			for _, w := range st.mapWitness {
				if w.m != v.Term || n >= 6 {
					continue
				}
				// only entries that exist in the ENTRY state of the map are inputs
				has, _ := st.mapLookupH(st.oldHeap, v, u, w.k.Term)
				add(fmt.Sprintf("%s{%d}#has", name, n), and(w.cond, has), SBool)
				expand(fmt.Sprintf("%s{%d}#key", name, n), w.k, depth+1)
				_, ov := st.mapLookupH(st.oldHeap, v, u, w.k.Term)
				expand(fmt.Sprintf("%s{%d}#val", name, n), ov, depth+1)
				n++
			}
		case *types.Interface:
			add(name+"#tag", app("i_tag", v.Term), SInt)
			add(name+"#iref", app("i_ref", v.Term), SRef)
		case *types.Array:
			n := int(u.Len())
			if n > replayMaxElems {
				n = replayMaxElems
			}
			for k := 0; k < n; k++ {
				et := u.Elem()
				expand(fmt.Sprintf("%s[%d]", name, k), Value{T: et, S: te.SortOf(et), Term: app("select", v.Term, bvInt(int64(k), 64))}, depth+1)
			}
		case *types.Signature, *types.Chan:
			add(name, v.Term, SRef)
		}
	}
	for _, k := range sortedKeys(st.entryVars) {
		expand(k, st.entryVars[k], 0)
	}
	return mv
}

// ---------------------------------------------------------------------------
// s-expression parsing of (get-value ...) output

type sx struct {
	atom string
	list []*sx
}

func parseSx(s string) []*sx {
	var out []*sx
	pos := 0
	var parse func() *sx
	skip := func() {
		for pos < len(s) && (s[pos] == ' ' || s[pos] == '\n' || s[pos] == '\t' || s[pos] == '\r') {
			pos++
		}
	}
	parse = func() *sx {
		skip()
		if pos >= len(s) {
			return nil
		}
		if s[pos] == '(' {
			pos++
			n := &sx{list: []*sx{}}
			for {
				skip()
				if pos >= len(s) {
					return n
				}
				if s[pos] == ')' {
					pos++
					return n
				}
				c := parse()
				if c == nil {
					return n
				}
				n.list = append(n.list, c)
			}
		}
		start := pos
		if s[pos] == '|' {
			pos++
			for pos < len(s) && s[pos] != '|' {
				pos++
			}
			pos++
			return &sx{atom: s[start:pos]}
		}
		if s[pos] == '"' {
			pos++
			for pos < len(s) && s[pos] != '"' {
				pos++
			}
			pos++
			return &sx{atom: s[start:pos]}
		}
		for pos < len(s) && !strings.ContainsRune(" \n\t\r()", rune(s[pos])) {
			pos++
		}
		return &sx{atom: s[start:pos]}
	}
	for {
		skip()
		if pos >= len(s) {
			break
		}
		n := parse()
		if n == nil {
			break
		}
		out = append(out, n)
	}
	return out
}

func (n *sx) String() string {
	if n.list == nil {
		return n.atom
	}
	var ps []string
	for _, c := range n.list {
		ps = append(ps, c.String())
	}
	return "(" + strings.Join(ps, " ") + ")"
}

// bvValue parses #x.. / #b.. / (_ bvN w)
func bvValue(n *sx) (*big.Int, bool) {
	if n.list == nil {
		a := n.atom
		if strings.HasPrefix(a, "#x") {
			v, ok := new(big.Int).SetString(a[2:], 16)
			return v, ok
		}
		if strings.HasPrefix(a, "#b") {
			v, ok := new(big.Int).SetString(a[2:], 2)
			return v, ok
		}
		return nil, false
	}
	if len(n.list) == 3 && n.list[0].atom == "_" && strings.HasPrefix(n.list[1].atom, "bv") {
		v, ok := new(big.Int).SetString(n.list[1].atom[2:], 10)
		return v, ok
	}
	return nil, false
}

func intValue(n *sx) (int64, bool) {
	if n.list == nil {
		v, err := strconv.ParseInt(n.atom, 10, 64)
		return v, err == nil
	}
	if len(n.list) == 2 && n.list[0].atom == "-" {
		v, ok := intValue(n.list[1])
		return -v, ok
	}
	return 0, false
}

// ---------------------------------------------------------------------------

type model struct {
	vals map[string]*sx
}

func parseModel(vc *VC) *model {
	out := vc.Model
	i := strings.Index(out, "\n")
	if i < 0 {
		return nil
	}
	nodes := parseSx(out[i+1:])
	if len(nodes) == 0 || nodes[0].list == nil {
		return nil
	}
	m := &model{vals: map[string]*sx{}}
	pairs := nodes[0].list
	for k, p := range pairs {
		if k >= len(vc.ModelVars) || len(p.list) != 2 {
			break
		}
		m.vals[vc.ModelVars[k].Name] = p.list[1]
	}
	return m
}

type goBuilder struct {
	eng     *Engine
	m       *model
	pkg     *types.Package
	imports map[string]string // path -> name
	pre     []string          // statements
	objs    map[string]string // ref value string -> go variable
	n       int
	fail    string
	incomplete string // some reachable object could not be built faithfully
	strs    map[string]string
}

func (g *goBuilder) qual(p *types.Package) string {
	if p == g.pkg {
		return ""
	}
	if n, ok := g.imports[p.Path()]; ok {
		return n
	}
	name := p.Name()
	for _, v := range g.imports {
		if v == name {
			name = fmt.Sprintf("%s%d", p.Name(), len(g.imports))
		}
	}
	g.imports[p.Path()] = name
	return name
}

func (g *goBuilder) typeStr(T types.Type) string {
	return types.TypeString(T, g.qual)
}

func (g *goBuilder) accessible(f *types.Var) bool {
	return f.Exported() || f.Pkg() == g.pkg
}

func (g *goBuilder) isNil(n *sx) bool {
	return n != nil && n.String() == "(mkref 0)"
}

// value builds a Go expression for the model value at path `name` of type T.
func (g *goBuilder) value(name string, T types.Type, depth int) string {
	zero := func() string { return "*new(" + g.typeStr(T) + ")" }
	if depth > 6 {
		return zero()
	}
	switch u := T.Underlying().(type) {
	case *types.Basic:
		n := g.m.vals[name]
		if n == nil {
			return zero()
		}
		switch {
		case u.Info()&types.IsBoolean != 0:
			return g.typeStr(T) + "(" + n.String() + ")"
		case u.Info()&types.IsInteger != 0:
			v, ok := bvValue(n)
			if !ok {
				return zero()
			}
			bits := intBits(u)
			if u.Info()&types.IsUnsigned == 0 {
				// signed interpretation
				if v.Bit(bits-1) == 1 {
					v = new(big.Int).Sub(v, new(big.Int).Lsh(big.NewInt(1), uint(bits)))
				}
			}
			return g.typeStr(T) + "(" + v.String() + ")"
		case u.Info()&types.IsString != 0:
			// uninterpreted sort: pick a string of the model's length, distinct per model value
			ln := int64(0)
			if l := g.m.vals[name+"#len"]; l != nil {
				if v, ok := bvValue(l); ok && v.IsInt64() {
					ln = v.Int64()
				}
			}
			if ln > 64 {
				ln = 64
			}
			key := n.String()
			if s, ok := g.strs[key]; ok {
				return g.typeStr(T) + "(" + strconv.Quote(s) + ")"
			}
			if lit, ok := g.strLitOf(key); ok {
				return g.typeStr(T) + "(" + strconv.Quote(lit) + ")"
			}
			s := strings.Repeat(string(rune('a'+len(g.strs)%26)), int(ln))
			g.strs[key] = s
			return g.typeStr(T) + "(" + strconv.Quote(s) + ")"
		}
		return zero()
	case *types.Struct:
		var fs []string
		for i := 0; i < u.NumFields(); i++ {
			f := u.Field(i)
			if !g.accessible(f) {
				g.incomplete = "a " + g.typeStr(T) + " value has fields the test cannot set"
				continue
			}
			fs = append(fs, f.Name()+": "+g.value(name+"."+f.Name(), f.Type(), depth+1))
		}
		return g.typeStr(T) + "{" + strings.Join(fs, ", ") + "}"
	case *types.Pointer:
		n := g.m.vals[name]
		if n == nil || g.isNil(n) {
			return "nil"
		}
		key := g.typeStr(T) + "@" + n.String()
		if v, ok := g.objs[key]; ok {
			return v
		}
		g.n++
		v := fmt.Sprintf("o%d", g.n)
		g.objs[key] = v
		g.pre = append(g.pre, fmt.Sprintf("%s := new(%s)", v, g.typeStr(u.Elem())))
		if stt, ok := u.Elem().Underlying().(*types.Struct); ok {
			for i := 0; i < stt.NumFields(); i++ {
				f := stt.Field(i)
				if isSyncType(f.Type()) {
					continue
				}
				if !g.accessible(f) {
					g.incomplete = "a " + g.typeStr(u.Elem()) + " object has fields the test cannot set"
					continue
				}
				g.pre = append(g.pre, fmt.Sprintf("%s.%s = %s", v, f.Name(), g.value(name+"->."+f.Name(), f.Type(), depth+1)))
			}
		} else {
			g.pre = append(g.pre, fmt.Sprintf("*%s = %s", v, g.value(name+"->", u.Elem(), depth+1)))
		}
		return v
	case *types.Slice:
		ref := g.m.vals[name+"#ref"]
		if ref == nil || g.isNil(ref) {
			return "nil"
		}
		ln := int64(0)
		if l := g.m.vals[name+"#len"]; l != nil {
			if v, ok := bvValue(l); ok {
				if !v.IsInt64() || v.Int64() > 1<<16 {
					g.fail = fmt.Sprintf("model needs a slice of length %s for %s", v.String(), name)
					return "nil"
				}
				ln = v.Int64()
			}
		}
		var es []string
		for k := int64(0); k < ln; k++ {
			en := fmt.Sprintf("%s[%d]", name, k)
			if _, has := g.m.vals[en]; has || k < 4 {
				es = append(es, g.value(en, u.Elem(), depth+1))
			} else {
				es = append(es, "*new("+g.typeStr(u.Elem())+")")
			}
		}
		return g.typeStr(T) + "{" + strings.Join(es, ", ") + "}"
	case *types.Map:
		n := g.m.vals[name]
		if n == nil || g.isNil(n) {
			return "nil"
		}
		var ents []string
		seenKey := map[string]bool{}
		for k := 0; k < 6; k++ {
			h := g.m.vals[fmt.Sprintf("%s{%d}#has", name, k)]
			if h == nil || h.atom != "true" {
				continue
			}
			ke := g.value(fmt.Sprintf("%s{%d}#key", name, k), u.Key(), depth+1)
			if seenKey[ke] {
				continue
			}
			seenKey[ke] = true
			ents = append(ents, ke+": "+g.value(fmt.Sprintf("%s{%d}#val", name, k), u.Elem(), depth+1))
		}
		return g.typeStr(T) + "{" + strings.Join(ents, ", ") + "}"
	case *types.Interface:
		tag := g.m.vals[name+"#tag"]
		if tag == nil {
			return "nil"
		}
		id, _ := intValue(tag)
		if id == 0 {
			return "nil"
		}
		if impl := replayIfaceImpl(g, T); impl != "" {
			return impl
		}
		g.eng.te.mu.Lock()
		dt := g.eng.te.typeByID[int(id)]
		g.eng.te.mu.Unlock()
		if dt != nil && types.AssignableTo(dt, T) {
			if p, ok := dt.Underlying().(*types.Pointer); ok {
				return "new(" + g.typeStr(p.Elem()) + ")"
			}
			return "*new(" + g.typeStr(dt) + ")"
		}
		if named, ok := T.(*types.Named); ok && named.Obj().Name() == "error" {
			g.qualPath("errors")
			return `errors.New("replay")`
		}
		g.fail = "no implementation known for interface " + g.typeStr(T)
		return "nil"
	case *types.Array:
		var es []string
		for k := int64(0); k < u.Len(); k++ {
			en := fmt.Sprintf("%s[%d]", name, k)
			if _, has := g.m.vals[en]; has {
				es = append(es, g.value(en, u.Elem(), depth+1))
			} else {
				es = append(es, "*new("+g.typeStr(u.Elem())+")")
			}
		}
		return g.typeStr(T) + "{" + strings.Join(es, ", ") + "}"
	case *types.Signature:
		return "nil"
	}
	return zero()
}

func (g *goBuilder) qualPath(path string) {
	if _, ok := g.imports[path]; !ok {
		g.imports[path] = filepath.Base(path)
	}
}

func (g *goBuilder) strLitOf(modelVal string) (string, bool) {
	return "", false
}

func isSyncType(T types.Type) bool {
	s := typeStr(T)
	return strings.HasPrefix(s, "sync.") || strings.HasPrefix(s, "sync/atomic.")
}

// replayIfaceImpl: default implementations for interfaces the model cannot construct.
func replayIfaceImpl(g *goBuilder, T types.Type) string {
	switch typeStr(T) {
	case modPath + "/crypto/hashing.Hasher":
		for _, p := range g.eng.prog.Pkgs {
			if p.PkgPath == modPath+"/crypto/hashing" {
				q := g.qual(p.Types)
				if q == "" {
					return "NewSha256Hasher()"
				}
				return q + ".NewSha256Hasher()"
			}
		}
	}
	return ""
}

// ---------------------------------------------------------------------------
// spec -> Go (subset) for post-condition replay

type goSpec struct {
	g      *goBuilder
	params map[string]string // spec name -> go variable
	nres   int
	olds   []string // statements before the call
	nold   int
	ok     bool
}

func (s *goSpec) expr(e *SExpr) string {
	switch e.Kind {
	case KInt:
		return e.Name
	case KStr:
		return strconv.Quote(e.Name)
	case KIdent:
		switch e.Name {
		case "true", "false", "nil":
			return e.Name
		case "result":
			if s.nres == 1 {
				return "res0"
			}
		}
		if strings.HasPrefix(e.Name, "result_") {
			return "res" + strings.TrimPrefix(e.Name, "result_")
		}
		if v, ok := s.params[e.Name]; ok {
			return v
		}
		return e.Name // package-level identifier
	case KUnary:
		return "(" + e.Op + s.expr(e.Args[0]) + ")"
	case KBinary:
		a, b := s.expr(e.Args[0]), s.expr(e.Args[1])
		switch e.Op {
		case "==>":
			return "(!(" + a + ") || (" + b + "))"
		case "<==>":
			return "((" + a + ") == (" + b + "))"
		}
		if e.Op == "==" || e.Op == "!=" {
			if isBytesCall(e.Args[0]) && isBytesCall(e.Args[1]) {
				s.g.qualPath("bytes")
				r := "bytes.Equal(" + s.bytesArg(e.Args[0]) + ", " + s.bytesArg(e.Args[1]) + ")"
				if e.Op == "!=" {
					r = "!" + r
				}
				return r
			}
		}
		return "(" + a + " " + e.Op + " " + b + ")"
	case KSel:
		return s.expr(e.Args[0]) + "." + e.Name
	case KIndex:
		return s.expr(e.Args[0]) + "[" + s.expr(e.Args[1]) + "]"
	case KSlice:
		lo, hi := "", ""
		if e.Args[1] != nil {
			lo = s.expr(e.Args[1])
		}
		if e.Args[2] != nil {
			hi = s.expr(e.Args[2])
		}
		return s.expr(e.Args[0]) + "[" + lo + ":" + hi + "]"
	case KCall:
		if f := e.Args[0]; f.Kind == KIdent {
			switch f.Name {
			case "len", "cap", "uint64", "int", "uint16", "uint8", "int64", "uint32", "byte":
				return f.Name + "(" + s.expr(e.Args[1]) + ")"
			case "old":
				s.nold++
				v := fmt.Sprintf("old%d", s.nold)
				s.olds = append(s.olds, v+" := "+s.expr(e.Args[1]))
				return v
			case "isnil":
				return "(" + s.expr(e.Args[1]) + " == nil)"
			case "fresh":
				return "true"
			}
			// a definition: expand it (parameters are substituted textually as Go expressions)
			if d, ok := s.g.eng.cs.Defines[f.Name]; ok && len(d.Params) == len(e.Args)-1 {
				saved := map[string]string{}
				had := map[string]bool{}
				var vals []string
				for _, a := range e.Args[1:] {
					vals = append(vals, "("+s.expr(a)+")")
				}
				for i, p := range d.Params {
					saved[p], had[p] = s.params[p], false
					if _, ok := s.params[p]; ok {
						had[p] = true
					}
					s.params[p] = vals[i]
				}
				r := s.expr(d.Body)
				for _, p := range d.Params {
					if had[p] {
						s.params[p] = saved[p]
					} else {
						delete(s.params, p)
					}
				}
				return "(" + r + ")"
			}
		}
	case KQuant:
		// forall i int :: lo <= i && i < hi ==> body   (a bounded range: a loop)
		if e.Op == "forall" && e.Args[0].Kind == KBinary && e.Args[0].Op == "==>" {
			g, body := e.Args[0].Args[0], e.Args[0].Args[1]
			if g.Kind == KBinary && g.Op == "&&" && g.Args[0].Kind == KBinary && g.Args[1].Kind == KBinary {
				lo, hi := g.Args[0], g.Args[1]
				if lo.Op == "<=" && lo.Args[1].Kind == KIdent && lo.Args[1].Name == e.Name &&
					hi.Op == "<" && hi.Args[0].Kind == KIdent && hi.Args[0].Name == e.Name {
					old, hadIt := s.params[e.Name]
					iv := fmt.Sprintf("qi%d", len(s.olds)+s.nold+len(s.params))
					s.params[e.Name] = iv
					b := s.expr(body)
					l, h := s.expr(lo.Args[0]), s.expr(hi.Args[1])
					if hadIt {
						s.params[e.Name] = old
					} else {
						delete(s.params, e.Name)
					}
					return fmt.Sprintf("func() bool { for %s := int(%s); %s < int(%s); %s++ { if !(%s) { return false } }; return true }()", iv, l, iv, h, iv, b)
				}
			}
		}
	}
	s.ok = false
	return "true"
}

func isBytesCall(e *SExpr) bool {
	if e.Kind != KCall || e.Args[0].Kind != KIdent {
		return false
	}
	switch e.Args[0].Name {
	case "bytes", "be64", "be16":
		return true
	}
	return false
}

func (s *goSpec) bytesArg(e *SExpr) string {
	switch e.Args[0].Name {
	case "bytes":
		return "[]byte(" + s.expr(e.Args[1]) + ")"
	case "be64":
		s.g.qualPath("encoding/binary")
		return "binary.BigEndian.AppendUint64(nil, uint64(" + s.expr(e.Args[1]) + "))"
	case "be16":
		s.g.qualPath("encoding/binary")
		return "binary.BigEndian.AppendUint16(nil, uint16(" + s.expr(e.Args[1]) + "))"
	}
	s.ok = false
	return "nil"
}

// ---------------------------------------------------------------------------

func findFuncByKey(eng *Engine, key string) (*ssa.Function, *Contract) {
	for fn, c := range eng.fnContract {
		if fnKey(fn) == key {
			return fn, c
		}
	}
	return nil, nil
}

// Replay builds and runs the test. Returns nil when no replay is possible.
func Replay(eng *Engine, vc *VC, cfg checkCfg, scratch string) *ReplayResult {
	fn, c := findFuncByKey(eng, vc.Func)
	if fn == nil {
		return nil
	}
	m := parseModel(vc)
	if m == nil {
		return &ReplayResult{Why: "no model in solver output"}
	}
	top := fn
	for top.Parent() != nil {
		top = top.Parent()
	}
	if top.Pkg == nil {
		return nil
	}
	if rr := replayWithDriver(eng, vc, m, cfg, scratch, top); rr != nil {
		return rr
	}
	if fn.Parent() != nil {
		return &ReplayResult{Why: "closures cannot be called from a test"}
	}
	g := &goBuilder{eng: eng, m: m, pkg: fn.Pkg.Pkg, imports: map[string]string{"fmt": "fmt", "testing": "testing"}, objs: map[string]string{}, strs: map[string]string{}}
	var argVars []string
	params := map[string]string{}
	for i, p := range fn.Params {
		v := fmt.Sprintf("a%d", i)
		expr := g.value(p.Name(), p.Type(), 0)
		g.pre = append(g.pre, fmt.Sprintf("var %s %s = %s", v, g.typeStr(p.Type()), expr))
		g.pre = append(g.pre, "_ = "+v)
		argVars = append(argVars, v)
		params[p.Name()] = v
	}
	if g.fail != "" {
		return &ReplayResult{Why: g.fail}
	}
	if g.incomplete != "" && vc.Kind != "post" {
		// a panic deep inside a callee on a half-built object would prove nothing
		return &ReplayResult{Why: "no generic replay: " + g.incomplete + " (a replay driver is needed)"}
	}
	var call string
	nres := fn.Signature.Results().Len()
	if fn.Signature.Recv() != nil {
		params["self"] = argVars[0]
		call = fmt.Sprintf("%s.%s(%s)", argVars[0], fn.Name(), strings.Join(argVars[1:], ", "))
	} else {
		call = fmt.Sprintf("%s(%s)", fn.Name(), strings.Join(argVars, ", "))
	}
	var resVars []string
	for i := 0; i < nres; i++ {
		resVars = append(resVars, fmt.Sprintf("res%d", i))
	}
	var body []string
	check := ""
	// the input must satisfy the function's preconditions (the model of a quantified
	// precondition need not): they are checked at run time before the call
	if c != nil {
		for _, rq := range c.Requires {
			gs := &goSpec{g: g, params: params, nres: nres, ok: true}
			ex := gs.expr(rq.Expr)
			if !gs.ok || len(gs.olds) > 0 {
				return &ReplayResult{Why: "no generic replay: the precondition `" + rq.Src + "` has no executable form (a replay driver is needed)"}
			}
			body = append(body, fmt.Sprintf("if !(%s) { fmt.Println(\"QEDVC-REPLAY: PRECONDITION-NOT-MET\"); return }", ex))
		}
	}
	switch vc.Kind {
	case "panic", "pre":
		// confirmed iff the real call panics
	case "post":
		var cl *Clause
		for i, en := range c.Ensures {
			if "post:"+clauseLabel(en, i) == vc.Name {
				cl = en
			}
		}
		if cl == nil {
			return &ReplayResult{Why: "clause not found"}
		}
		gs := &goSpec{g: g, params: params, nres: nres, ok: true}
		ex := gs.expr(cl.Expr)
		if !gs.ok {
			return &ReplayResult{Why: "postcondition uses constructs that have no executable form"}
		}
		body = append(body, gs.olds...)
		check = fmt.Sprintf("if !(%s) { fmt.Println(\"QEDVC-REPLAY: POST-VIOLATED\") } else { fmt.Println(\"QEDVC-REPLAY: post holds\") }", ex)
	default:
		return &ReplayResult{Why: "obligation kind " + vc.Kind + " has no replay"}
	}
	if nres > 0 {
		body = append(body, strings.Join(resVars, ", ")+" := "+call)
		for _, r := range resVars {
			body = append(body, "_ = "+r)
		}
	} else {
		body = append(body, call)
	}
	if check != "" {
		body = append(body, check)
	}
	body = append(body, `fmt.Println("QEDVC-REPLAY: returned normally")`)
	var src strings.Builder
	fmt.Fprintf(&src, "package %s\n\nimport (\n", fn.Pkg.Pkg.Name())
	var imps []string
	for p := range g.imports {
		imps = append(imps, p)
	}
	sort.Strings(imps)
	for _, p := range imps {
		fmt.Fprintf(&src, "\t%s %q\n", g.imports[p], p)
	}
	fmt.Fprintf(&src, ")\n\n// generated by qedvc from the solver model of obligation\n//   %s#%s\nfunc TestQedvcReplay(t *testing.T) {\n", vc.Func, vc.Name)
	fmt.Fprintf(&src, "\tdefer func() {\n\t\tif r := recover(); r != nil {\n\t\t\tfmt.Println(\"QEDVC-REPLAY: PANIC:\", r)\n\t\t}\n\t}()\n")
	for _, l := range g.pre {
		fmt.Fprintf(&src, "\t%s\n", l)
	}
	for _, l := range body {
		fmt.Fprintf(&src, "\t%s\n", l)
	}
	fmt.Fprintf(&src, "}\n")
	rr := runReplayTest(eng, fn.Pkg.Pkg.Path(), src.String(), scratch)
	switch vc.Kind {
	case "panic", "pre":
		rr.Confirmed = strings.Contains(rr.Output, "QEDVC-REPLAY: PANIC")
	case "post":
		rr.Confirmed = strings.Contains(rr.Output, "QEDVC-REPLAY: POST-VIOLATED")
	}
	return rr
}

// scenarioReplay runs a scenario driver (marked // QEDVC-SCENARIO) for an obligation that
// failed without a replayable model. It needs no values from the solver.
func scenarioReplay(eng *Engine, vc *VC, cfg checkCfg, scratch string) *ReplayResult {
	fn, _ := findFuncByKey(eng, vc.Func)
	if fn == nil {
		return nil
	}
	top := fn
	for top.Parent() != nil {
		top = top.Parent()
	}
	if top.Pkg == nil {
		return nil
	}
	// <obligation>.go.txt and any number of <obligation>.<tag>.go.txt: tried in turn
	base := strings.TrimSuffix(driverFile(cfg, vc), ".go.txt")
	files, _ := filepath.Glob(base + ".*go.txt")
	sort.Strings(files)
	var last *ReplayResult
	for _, f := range files {
		b, err := os.ReadFile(f)
		if err != nil || !strings.Contains(string(b), "// QEDVC-SCENARIO") {
			continue
		}
		rr := replayWithDriverFile(eng, vc, &model{vals: map[string]*sx{}}, cfg, scratch, top, f)
		if rr != nil {
			rr.Why = "driver " + f
			last = rr
			if rr.Confirmed {
				return rr
			}
		}
	}
	return last
}

var replayCounter int

// runReplayTest injects src as <pkg>/qedvc_replay_test.go via -overlay and runs it.
func runReplayTest(eng *Engine, pkgPath, src, scratch string) *ReplayResult {
	replayCounter++
	dir := filepath.Join(scratch, fmt.Sprintf("replay%d", replayCounter))
	os.MkdirAll(dir, 0o755)
	rel := strings.TrimPrefix(strings.TrimPrefix(pkgPath, modPath), "/")
	pkgDir := filepath.Join(repoDir, rel)
	ov := map[string][]byte{}
	for k, v := range eng.prog.Overlay {
		ov[k] = v
	}
	// blank the package's own tests (most import the RocksDB test helper)
	ents, _ := os.ReadDir(pkgDir)
	pkgName := filepath.Base(pkgDir)
	if p := eng.prog.Pkgs[pkgPath]; p != nil {
		pkgName = p.Name
	}
	for _, e := range ents {
		if strings.HasSuffix(e.Name(), "_test.go") {
			ov[filepath.Join(pkgDir, e.Name())] = []byte("package " + pkgName + "\n")
		}
	}
	ov[filepath.Join(pkgDir, "qedvc_replay_test.go")] = []byte(src)
	ovPath, err := WriteOverlayJSON(dir, ov)
	if err != nil {
		return &ReplayResult{Why: err.Error(), TestSrc: src}
	}
	args := []string{"test", "-overlay", ovPath, "-vet=off", "-count=1", "-timeout", "60s", "-run", "^TestQedvcReplay$", "-v"}
	if strings.Contains(src, "// QEDVC-GOFLAGS: -race") {
		args = append(args, "-race")
	}
	args = append(args, "./"+rel)
	ctx, cancel := context.WithTimeout(context.Background(), 300*time.Second)
	defer cancel()
	cmd := exec.CommandContext(ctx, "go", args...)
	cmd.Dir = repoDir
	cmd.Env = append(os.Environ(), "GOFLAGS=-mod=mod", "GOPROXY=off", "GOSUMDB=off", "GOTOOLCHAIN=local", "CGO_ENABLED=1")
	var out bytes.Buffer
	cmd.Stdout = &out
	cmd.Stderr = &out
	_ = cmd.Run()
	o := out.String()
	if len(o) > 8000 {
		// keep both ends: the verdict of the test run is at the end
		o = o[:4000] + "\n… [output shortened] …\n" + o[len(o)-4000:]
	}
	return &ReplayResult{Cmd: "cd " + repoDir + " && go " + strings.Join(args, " "), TestSrc: src, Output: o}
}

var _ = json.Marshal

// ---------------------------------------------------------------------------
// Replay drivers: for obligations whose counterexample depends on an
// abstracted callee returning a particular value (e.g. "the hyper proof
// verifies"), a hand-written driver under /verif/replay/drivers builds a
// genuine log with the REAL code and then imposes the model's scalar fields.
// Placeholders: MODEL_BOOL("path"), MODEL_U64("path"), MODEL_I64("path"), MODEL_LEN("path").

func driverFile(cfg checkCfg, vc *VC) string {
	safe := strings.NewReplacer("/", "_", " ", "_", "*", "", "(", "", ")", "", "#", "--", ":", "-", "$", "-", "@", "-at-").Replace(vc.Func + "#" + vc.Name)
	return filepath.Join(cfg.VerifDir, "replay", "drivers", safe+".go.txt")
}

func replayWithDriver(eng *Engine, vc *VC, m *model, cfg checkCfg, scratch string, fn *ssa.Function) *ReplayResult {
	return replayWithDriverFile(eng, vc, m, cfg, scratch, fn, driverFile(cfg, vc))
}

func replayWithDriverFile(eng *Engine, vc *VC, m *model, cfg checkCfg, scratch string, fn *ssa.Function, file string) *ReplayResult {
	b, err := os.ReadFile(file)
	if err != nil {
		return nil
	}
	src := string(b)
	subst := func(kind string, conv func(n *sx) (string, bool)) {
		for {
			i := strings.Index(src, kind+"(\"")
			if i < 0 {
				return
			}
			j := strings.Index(src[i:], "\")")
			if j < 0 {
				return
			}
			name := src[i+len(kind)+2 : i+j]
			val := "0"
			if kind == "MODEL_BOOL" {
				val = "false"
			}
			if n := m.vals[name]; n != nil {
				if v, ok := conv(n); ok {
					val = v
				}
			}
			src = src[:i] + val + src[i+j+2:]
		}
	}
	subst("MODEL_BOOL", func(n *sx) (string, bool) { return n.String(), n.atom == "true" || n.atom == "false" })
	subst("MODEL_U64", func(n *sx) (string, bool) {
		v, ok := bvValue(n)
		if !ok {
			return "", false
		}
		return "uint64(" + v.String() + ")", true
	})
	subst("MODEL_I64", func(n *sx) (string, bool) {
		v, ok := bvValue(n)
		if !ok {
			return "", false
		}
		if v.Bit(63) == 1 {
			v = new(big.Int).Sub(v, new(big.Int).Lsh(big.NewInt(1), 64))
		}
		return "int64(" + v.String() + ")", true
	})
	// a driver may live in another package than the function (e.g. it drives it through the API):
	//   // QEDVC-PKG: github.com/bbva/qed/protocol
	pkgPath := fn.Pkg.Pkg.Path()
	if i := strings.Index(src, "// QEDVC-PKG: "); i >= 0 {
		rest := src[i+len("// QEDVC-PKG: "):]
		if j := strings.IndexByte(rest, '\n'); j > 0 {
			pkgPath = strings.TrimSpace(rest[:j])
		}
	}
	rr := runReplayTest(eng, pkgPath, src, scratch)
	// a scenario test (it passes on code that has the property): its failure is a failing input
	scenarioFailed := strings.Contains(src, "// QEDVC-SCENARIO") && !strings.Contains(rr.Output, "[build failed]") &&
		(strings.Contains(rr.Output, "--- FAIL: TestQedvcReplay") || strings.Contains(rr.Output, "fatal error: stack overflow") || strings.Contains(rr.Output, "panic: test timed out"))
	rr.Confirmed = strings.Contains(rr.Output, "QEDVC-REPLAY: POST-VIOLATED") || strings.Contains(rr.Output, "QEDVC-REPLAY: PANIC") || scenarioFailed ||
		(strings.Contains(src, "// QEDVC-GOFLAGS: -race") && strings.Contains(rr.Output, "WARNING: DATA RACE"))
	rr.Why = "driver " + driverFile(cfg, vc)
	return rr
}
