package main

import (
	"flag"
	"fmt"
	"os"
	"strconv"
	"strings"
	"time"

	"golang.org/x/tools/go/packages"
)

func main() {
	if len(os.Args) < 2 {
		fmt.Fprintln(os.Stderr, "usage: qedvc <load|stubgen|check|list> ...")
		os.Exit(2)
	}
	switch os.Args[1] {
	case "load":
		t0 := time.Now()
		p, err := Load(nil)
		if err != nil {
			fmt.Println(err)
			os.Exit(1)
		}
		n := 0
		for _, sp := range p.SSAPkgs {
			n += len(sp.Members)
		}
		fmt.Printf("loaded %d packages, %d ssa packages, %d members, %.1fs\n", len(p.Pkgs), len(p.SSAPkgs), n, time.Since(t0).Seconds())
	case "stubgen":
		ov, dropped, err := Skeleton()
		if err != nil {
			fmt.Println(err)
			os.Exit(1)
		}
		for k, v := range ov {
			if len(os.Args) > 2 && os.Args[2] == "-v" {
				fmt.Printf("==== %s\n%s\n", k, v)
			}
		}
		for _, d := range dropped {
			fmt.Println("dropped:", d)
		}
	case "overlay":
		// qedvc overlay <dir>: write the go build/test overlay that replaces the cgo RocksDB
		// wrapper by its pure-Go skeleton (so that every package of QEDVC_REPO type-checks and builds)
		if len(os.Args) < 3 {
			fmt.Println("usage: qedvc overlay <output dir>")
			os.Exit(2)
		}
		ov, _, err := Skeleton()
		if err != nil {
			fmt.Println(err)
			os.Exit(1)
		}
		os.MkdirAll(os.Args[2], 0o755)
		p, err := WriteOverlayJSON(os.Args[2], ov)
		if err != nil {
			fmt.Println(err)
			os.Exit(1)
		}
		fmt.Println(p)
	case "runtest":
		// qedvc runtest <import path> <file with TestQedvcReplay>: run a hand-written
		// demonstration in-package against the real code (same overlay as a replay)
		if len(os.Args) < 4 {
			fmt.Println("usage: qedvc runtest <import path> <test file>")
			os.Exit(2)
		}
		ov, _, err := Skeleton()
		if err != nil {
			fmt.Println(err)
			os.Exit(1)
		}
		src, err := os.ReadFile(os.Args[3])
		if err != nil {
			fmt.Println(err)
			os.Exit(1)
		}
		scratch, _ := os.MkdirTemp("", "qedvc-runtest")
		defer os.RemoveAll(scratch)
		eng := &Engine{prog: &Program{Overlay: ov, Pkgs: map[string]*packages.Package{}}}
		r := runReplayTest(eng, os.Args[2], string(src), scratch)
		fmt.Println(r.Output)
		if !strings.Contains(r.Output, "\nok ") && !strings.HasPrefix(r.Output, "ok ") && !strings.Contains(r.Output, "--- PASS") {
			os.Exit(1)
		}
	case "sweep":
		fs := flag.NewFlagSet("sweep", flag.ExitOnError)
		filter := fs.String("pkg", "", "package path filter")
		dis := fs.Bool("discharge", false, "discharge panic obligations")
		v := fs.Bool("v", false, "verbose")
		fs.BoolVar(&os_debug, "debug", false, "engine panics are fatal")
		fs.Parse(os.Args[2:])
		runSweep(*filter, *dis, *v)
	case "check":
		fs := flag.NewFlagSet("check", flag.ExitOnError)
		cfg := checkCfg{}
		fs.StringVar(&cfg.Prop, "property", "", "property id (C01..C20) or all")
		fs.StringVar(&cfg.Tier, "tier", "", "quick|thorough")
		fs.StringVar(&cfg.VerifDir, "verif", "/verif", "verif directory")
		fs.StringVar(&cfg.OnlyFunc, "func", "", "only functions whose key contains this")
		fs.BoolVar(&cfg.KeepSMT, "keep", false, "keep SMT files")
		fs.BoolVar(&cfg.Verbose, "v", false, "verbose")
		fs.BoolVar(&cfg.NoReplay, "noreplay", false, "do not replay counterexamples")
		fs.BoolVar(&os_debug, "debug", false, "engine panics are fatal")
		fs.Parse(os.Args[2:])
		if cfg.Tier == "" {
			cfg.Tier = os.Getenv("VERIF_TIER")
		}
		if cfg.Tier == "" {
			cfg.Tier = "quick"
		}
		if s := os.Getenv("VERIF_SEED"); s != "" {
			cfg.Seed, _ = strconv.ParseInt(s, 10, 64)
		}
		if cfg.Prop == "" {
			fmt.Fprintln(os.Stderr, "need -property")
			os.Exit(2)
		}
		os.Exit(runCheck(cfg))
	}
}
