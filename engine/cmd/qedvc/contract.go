package main

// Contract files: Gobra-style structured comments.
//   /repo/<pkg>/contracts_verif.go   (build tag verif, comment-only)  -- contracts on QED code
//   /verif/contracts/trusted/*.spec  -- assumed contracts of external code (the only place where
//                                       a contract is taken on trust), and shared spec vocabulary
//
// Syntax inside /*@ ... @*/ (or the whole file for .spec):
//   package <import path>                 (spec files only)
//   func <Name> | func <Recv>.<Name> | func <Outer>.<closureVar>
//     props C01 C02
//     requires [label:] expr
//     ensures  [label:] expr
//     modifies loc, loc, ...
//     decreases expr
//     may_panic | pure | trusted | inline | opaque
//     loop <k> invariant [label:] expr
//     loop <k> modifies loc, ...
//     loop <k> decreases expr
//   ghost var <name> <type>
//   spec func <name>(<p> <sort>, ...) <sort>
//   define <name>(<p>, ...) = expr
//   axiom [label:] expr

import (
	"fmt"
	"os"
	"path/filepath"
	"regexp"
	"strconv"
	"strings"
)

type Clause struct {
	Label string
	Props []string // restricts to these properties if non-empty
	Src   string
	Expr  *SExpr
	File  string
	Line  int
}

type LoopSpec struct {
	Invariants []*Clause
	Modifies   []*SExpr
	HasMod     bool
	Decreases  *Clause
}

type Contract struct {
	Pkg       string // import path
	Name      string // as written: Name, Recv.Name, Outer.closure
	Key       string // resolved canonical key (set by resolver)
	Props     []string
	Requires  []*Clause
	Ensures   []*Clause
	Assumes   []*Clause
	Captures  []*Clause
	Preserves []*SExpr
	PreservesSrc []string
	Modifies  []*SExpr
	HasMod    bool
	Decreases *Clause
	MayPanic  bool
	UncheckedPanics bool
	Pure      bool
	Trusted   bool
	Opaque    bool // never inline, even without ensures
	Inline    bool
	NoReturn  bool
	Loops     map[int]*LoopSpec
	Iterates  []*IterSpec
	CallInvs  map[int][]*Clause
	AtAsserts map[string][]*Clause // callee name -> assertions at its call sites
	atUsed    map[string]bool
	File      string
	Line      int
	Used      bool
}

type IterSpec struct {
	Param, Var string
	Where      *SExpr
	Src        string
}

type GhostVar struct {
	Name, Type string
	Pkg        string
	// Probe: an observation of the most recent call that sets it ("ghost probe").
	// It is forgotten at every call into module or unknown code and is exempt from
	// frame checks, so it can only be used right after the call that sets it.
	Probe bool
	// Trace ("ghost trace"): a record of calls of a library function that is used all over the
	// module (json.Marshal): like a ghost var it changes only where a contract names it, but a
	// function that reaches such a call need not list it in its frame. A caller therefore
	// learns nothing about it across calls whose contract does not name it (they are taken to
	// leave it alone - sound only for reasoning inside the function that makes the call itself).
	Trace bool
}

type SpecFunc struct {
	Name   string
	Params []string // sorts (spec-level type names)
	PNames []string
	Result string
	// Body (optional): a (possibly recursive) definition. The function stays
	// uninterpreted for the solver; every occurrence f(args) in a contract clause
	// contributes the ground instance  f(args) = Body[args]  (one level: occurrences
	// inside that instance are not unfolded again).
	Body *SExpr
	Pkg  string
}

type Define struct {
	Pkg    string // package whose scope resolves the body's free names
	Name   string
	Params []string
	Body   *SExpr
}

type Axiom struct {
	Label string
	Expr  *SExpr
	Src   string
	Pkg   string
}

type TypeInv struct {
	Pkg, Type string
	Ctors     []string
	Expr      *SExpr
	Src       string
	File      string
	Line      int
	Broken    string // set by the syntactic immutability check
}

type Guard struct {
	Pkg, Type, Field, Lock string
	Except                 []string
}

type ContractSet struct {
	Guards    map[string]*Guard
	ImmFields map[string]*ImmField
	TypeInvs map[string]*TypeInv
	ByName  map[string]*Contract // pkg + "." + Name
	Ghosts  map[string]*GhostVar
	Specs   map[string]*SpecFunc
	Defines map[string]*Define
	Axioms  []*Axiom
	PurePkgs []string
	NonNilPkgs []string
	Files   []string
	Errors  []string
}

func NewContractSet() *ContractSet {
	return &ContractSet{Guards: map[string]*Guard{}, ImmFields: map[string]*ImmField{}, TypeInvs: map[string]*TypeInv{}, ByName: map[string]*Contract{}, Ghosts: map[string]*GhostVar{}, Specs: map[string]*SpecFunc{}, Defines: map[string]*Define{}}
}

var reFuncHdr = regexp.MustCompile(`^func\s+(?:\(([^)]*)\)\s*)?([A-Za-z_$][\w$.\[\],]*)`)
var rePropLabel = regexp.MustCompile(`^\s*((?:C\d+,?)+/)?([A-Za-z_][\w\-.]*)\s*:\s+`)
var keywords = []string{"iterates", "at", "call", "preserves", "guarded", "captures", "nonnilpkg", "immutable", "assumes", "typeinv", "purepkg", "noreturn", "func", "iface", "props", "requires", "ensures", "modifies", "decreases", "may_panic", "unchecked_panics", "no_panic", "pure", "trusted", "opaque", "inline", "loop", "ghost", "spec", "define", "axiom", "package"}

func startsWithKeyword(s string) string {
	for _, k := range keywords {
		if s == k || strings.HasPrefix(s, k+" ") || strings.HasPrefix(s, k+"\t") {
			return k
		}
	}
	return ""
}

// LoadContractFile parses one file. pkg is the import path for repo files.
func (cs *ContractSet) LoadFile(path, pkg string, trusted bool) {
	data, err := os.ReadFile(path)
	if err != nil {
		cs.Errors = append(cs.Errors, err.Error())
		return
	}
	cs.Files = append(cs.Files, path)
	lines := strings.Split(string(data), "\n")
	isSpec := strings.HasSuffix(path, ".spec")
	in := isSpec
	// logical lines: (text, lineno)
	type lline struct {
		text string
		line int
	}
	var ll []lline
	for i, raw := range lines {
		l := raw
		if !isSpec {
			if !in {
				if idx := strings.Index(l, "/*@"); idx >= 0 {
					in = true
					l = l[idx+3:]
				} else {
					continue
				}
			}
			if idx := strings.Index(l, "@*/"); idx >= 0 {
				l = l[:idx]
				in = false
			}
		}
		// a comment starts at the first // that is not inside a string literal
		inStr := false
		for idx := 0; idx+1 < len(l); idx++ {
			if l[idx] == '"' && (idx == 0 || l[idx-1] != '\\') {
				inStr = !inStr
			}
			if !inStr && l[idx] == '/' && l[idx+1] == '/' {
				l = l[:idx]
				break
			}
		}
		t := strings.TrimSpace(l)
		if t == "" {
			continue
		}
		if startsWithKeyword(t) != "" || len(ll) == 0 {
			ll = append(ll, lline{t, i + 1})
		} else {
			ll[len(ll)-1].text += " " + t
		}
	}
	var cur *Contract
	errf := func(line int, f string, a ...interface{}) {
		cs.Errors = append(cs.Errors, fmt.Sprintf("%s:%d: %s", path, line, fmt.Sprintf(f, a...)))
	}
	parseClause := func(rest string, line int) *Clause {
		c := &Clause{File: path, Line: line}
		if m := rePropLabel.FindStringSubmatch(rest); m != nil {
			if m[1] != "" {
				for _, p := range strings.Split(strings.TrimSuffix(m[1], "/"), ",") {
					if p != "" {
						c.Props = append(c.Props, p)
					}
				}
			}
			c.Label = m[2]
			rest = rest[len(m[0]):]
		}
		c.Src = rest
		e, err := ParseSpec(rest)
		if err != nil {
			errf(line, "parse %q: %v", rest, err)
			return nil
		}
		c.Expr = e
		return c
	}
	parseLocs := func(rest string, line int) []*SExpr {
		var out []*SExpr
		for _, part := range splitCommaTop(rest) {
			part = strings.TrimSpace(part)
			if part == "" || part == "nothing" {
				continue
			}
			var cond *SExpr
			if i := strings.Index(part, " when "); i >= 0 {
				c, err := ParseSpec(part[i+6:])
				if err != nil {
					errf(line, "parse when-condition %q: %v", part[i+6:], err)
					continue
				}
				cond = c
				part = strings.TrimSpace(part[:i])
			}
			e, err := ParseSpec(part)
			if err != nil {
				errf(line, "parse loc %q: %v", part, err)
				continue
			}
			if cond != nil {
				e = &SExpr{Kind: KBinary, Op: "when", Args: []*SExpr{e, cond}}
			}
			out = append(out, e)
		}
		return out
	}
	for _, l := range ll {
		kw := startsWithKeyword(l.text)
		rest := strings.TrimSpace(strings.TrimPrefix(l.text, kw))
		switch kw {
		case "package":
			if isSpec {
				pkg = rest
			}
			cur = nil
		case "nonnilpkg":
			cs.NonNilPkgs = append(cs.NonNilPkgs, rest)
		case "purepkg":
			cs.PurePkgs = append(cs.PurePkgs, rest)
		case "guarded":
			// guarded T.f by T.mu [except ctor1,ctor2]: every access to field f needs the lock mu of the same object
			m := regexp.MustCompile(`^(\w+)\.(\w+)\s+by\s+(\w+)\.(\w+)(?:\s+except\s+(.+))?$`).FindStringSubmatch(rest)
			if m == nil || m[1] != m[3] {
				errf(l.line, "bad guarded declaration (want: guarded T.f by T.mu [except f1,f2])")
				continue
			}
			g := &Guard{Pkg: pkg, Type: m[1], Field: m[2], Lock: m[4]}
			for _, x := range strings.Split(m[5], ",") {
				if x = strings.TrimSpace(x); x != "" {
					g.Except = append(g.Except, x)
				}
			}
			cs.Guards[pkg+"."+m[1]+"."+m[2]] = g
			cur = nil
		case "immutable":
			// immutable T.f, T.g by ctor1,ctor2
			decl, by := rest, ""
			if i := strings.Index(rest, " by "); i >= 0 {
				decl, by = rest[:i], rest[i+4:]
			}
			var bys []string
			for _, b := range strings.Split(by, ",") {
				if b = strings.TrimSpace(b); b != "" {
					bys = append(bys, b)
				}
			}
			for _, d := range strings.Split(decl, ",") {
				d = strings.TrimSpace(d)
				parts := strings.SplitN(d, ".", 2)
				if len(parts) != 2 {
					errf(l.line, "bad immutable declaration %q", d)
					continue
				}
				cs.ImmFields[pkg+"."+d] = &ImmField{Pkg: pkg, Type: parts[0], Field: parts[1], By: bys, File: path, Line: l.line}
			}
			cur = nil
		case "typeinv":
			// typeinv <Type> by f1,f2: expr over self
			m := regexp.MustCompile(`^(\w+)\s+by\s+([\w$.,\s]+?)\s*:\s*(.+)$`).FindStringSubmatch(rest)
			if m == nil {
				errf(l.line, "bad typeinv (want: typeinv T by ctor1,ctor2: expr)")
				continue
			}
			e, err := ParseSpec(m[3])
			if err != nil {
				errf(l.line, "typeinv %s: %v", m[1], err)
				continue
			}
			ti := &TypeInv{Pkg: pkg, Type: m[1], Expr: e, Src: m[3], File: path, Line: l.line}
			for _, c := range strings.Split(m[2], ",") {
				if c = strings.TrimSpace(c); c != "" {
					ti.Ctors = append(ti.Ctors, c)
				}
			}
			cs.TypeInvs[pkg+"."+m[1]] = ti
			cur = nil
		case "func", "iface":
			m := reFuncHdr.FindStringSubmatch("func " + rest)
			if m == nil {
				errf(l.line, "bad func header %q", rest)
				cur = nil
				continue
			}
			name := m[2]
			if m[1] != "" {
				// (p *T) Name  or (T) Name
				recv := strings.Fields(m[1])
				rt := strings.TrimPrefix(recv[len(recv)-1], "*")
				name = rt + "." + name
			}
			cur = &Contract{Pkg: pkg, Name: name, Trusted: trusted, Loops: map[int]*LoopSpec{}, File: path, Line: l.line}
			k := pkg + "." + name
			if _, dup := cs.ByName[k]; dup {
				errf(l.line, "duplicate contract for %s", k)
			}
			cs.ByName[k] = cur
		case "ghost":
			f := strings.Fields(rest)
			if len(f) >= 3 && (f[0] == "var" || f[0] == "probe" || f[0] == "trace") {
				cs.Ghosts[f[1]] = &GhostVar{Name: f[1], Type: strings.Join(f[2:], " "), Pkg: pkg, Probe: f[0] == "probe", Trace: f[0] == "trace"}
			} else {
				errf(l.line, "bad ghost decl")
			}
		case "spec":
			// spec func name(a Sort, b Sort) Sort
			m := regexp.MustCompile(`^func\s+(\w+)\s*\(([^)]*)\)\s*([^=]+?)(?:\s*=\s*(.+))?$`).FindStringSubmatch(rest)
			if m == nil {
				errf(l.line, "bad spec func")
				continue
			}
			sf := &SpecFunc{Name: m[1], Result: strings.TrimSpace(m[3]), Pkg: pkg}
			if m[4] != "" {
				e, err := ParseSpec(m[4])
				if err != nil {
					errf(l.line, "spec func %s: %v", sf.Name, err)
					continue
				}
				sf.Body = e
			}
			for _, p := range splitCommaTop(m[2]) {
				p = strings.TrimSpace(p)
				if p == "" {
					continue
				}
				f := strings.Fields(p)
				if len(f) == 1 {
					sf.Params = append(sf.Params, f[0])
					sf.PNames = append(sf.PNames, fmt.Sprintf("a%d", len(sf.Params)))
				} else {
					sf.PNames = append(sf.PNames, f[0])
					sf.Params = append(sf.Params, strings.Join(f[1:], " "))
				}
			}
			cs.Specs[sf.Name] = sf
		case "define":
			m := regexp.MustCompile(`^(\w+)\s*\(([^)]*)\)\s*=\s*(.+)$`).FindStringSubmatch(rest)
			if m == nil {
				errf(l.line, "bad define")
				continue
			}
			d := &Define{Name: m[1], Pkg: pkg}
			for _, p := range splitCommaTop(m[2]) {
				if p = strings.TrimSpace(p); p != "" {
					d.Params = append(d.Params, p)
				}
			}
			e, err := ParseSpec(m[3])
			if err != nil {
				errf(l.line, "define %s: %v", d.Name, err)
				continue
			}
			d.Body = e
			cs.Defines[d.Name] = d
		case "axiom":
			c := parseClause(rest, l.line)
			if c != nil {
				cs.Axioms = append(cs.Axioms, &Axiom{Label: c.Label, Expr: c.Expr, Src: c.Src, Pkg: pkg})
			}
		default:
			if cur == nil {
				errf(l.line, "clause outside func: %s", l.text)
				continue
			}
			switch kw {
			case "props":
				cur.Props = append(cur.Props, strings.Fields(rest)...)
			case "requires":
				if c := parseClause(rest, l.line); c != nil {
					cur.Requires = append(cur.Requires, c)
				}
			case "ensures":
				if c := parseClause(rest, l.line); c != nil {
					cur.Ensures = append(cur.Ensures, c)
				}
			case "captures":
				// closures only: a fact about the captured variables, proved where the closure is
				// created and assumed when its body runs (what it mentions must not change in between)
				if c := parseClause(rest, l.line); c != nil {
					cur.Captures = append(cur.Captures, c)
				}
			case "assumes":
				// a postcondition handed to callers WITHOUT being checked against the body (listed as an assumption)
				if c := parseClause(rest, l.line); c != nil {
					cur.Assumes = append(cur.Assumes, c)
				}
			case "modifies":
				cur.HasMod = true
				cur.Modifies = append(cur.Modifies, parseLocs(rest, l.line)...)
			case "preserves":
				// locations that keep their value although the frame says "everything":
				// restored at call sites, and an obligation of the function itself
				cur.Preserves = append(cur.Preserves, parseLocs(rest, l.line)...)
				cur.PreservesSrc = append(cur.PreservesSrc, rest)
			case "decreases":
				cur.Decreases = parseClause(rest, l.line)
			case "may_panic":
				cur.MayPanic = true
			case "unchecked_panics":
				// partial correctness only: the run-time panics of this function (nil, index, slice,
				// division, ...) are NOT checked, and explicit ones are allowed (listed as an assumption).
				// Callers are not told "may panic": for them it is what an unverified stub was before,
				// a callee ASSUMED not to panic - the evidence says so.
				cur.UncheckedPanics = true
			case "no_panic":
			case "pure":
				cur.Pure = true
			case "trusted":
				cur.Trusted = true
			case "opaque":
				cur.Opaque = true
			case "inline":
				cur.Inline = true
			case "noreturn":
				cur.NoReturn = true
			case "iterates":
				// iterates <param> over <var> where <expr>   (higher-order callee: it calls <param>
				// any number of times, each time with some <var> satisfying <expr>)
				m := regexp.MustCompile(`^(\w+)\s+over\s+(\w+)\s+where\s+(.+)$`).FindStringSubmatch(rest)
				if m == nil {
					errf(l.line, "bad iterates clause (want: iterates f over x where expr)")
					continue
				}
				e, err := ParseSpec(m[3])
				if err != nil {
					errf(l.line, "iterates: %v", err)
					continue
				}
				cur.Iterates = append(cur.Iterates, &IterSpec{Param: m[1], Var: m[2], Where: e, Src: m[3]})
			case "at":
				// at <Callee> assert [label:] expr : an assertion over the caller's locals that has to
				// hold whenever this function calls <Callee> (T.Method or function name)
				f := strings.Fields(rest)
				if len(f) < 3 || f[1] != "assert" {
					errf(l.line, "bad at clause (want: at <Callee> assert expr)")
					continue
				}
				body := strings.TrimSpace(strings.TrimPrefix(strings.TrimSpace(strings.TrimPrefix(rest, f[0])), "assert"))
				if c := parseClause(body, l.line); c != nil {
					if cur.AtAsserts == nil {
						cur.AtAsserts = map[string][]*Clause{}
					}
					cur.AtAsserts[f[0]] = append(cur.AtAsserts[f[0]], c)
				}
			case "call":
				// call <n> invariant [label:] expr : invariant of the callback iteration at the n-th call
				f := strings.Fields(rest)
				if len(f) < 3 || f[1] != "invariant" {
					errf(l.line, "bad call clause (want: call <n> invariant expr)")
					continue
				}
				k, err := strconv.Atoi(strings.TrimPrefix(f[0], "@"))
				if err != nil {
					errf(l.line, "bad call ordinal %q", f[0])
					continue
				}
				body := strings.TrimSpace(strings.TrimPrefix(strings.TrimSpace(strings.TrimPrefix(rest, f[0])), "invariant"))
				if c := parseClause(body, l.line); c != nil {
					if cur.CallInvs == nil {
						cur.CallInvs = map[int][]*Clause{}
					}
					cur.CallInvs[k] = append(cur.CallInvs[k], c)
				}
			case "loop":
				f := strings.Fields(rest)
				if len(f) < 2 {
					errf(l.line, "bad loop clause")
					continue
				}
				k, err := strconv.Atoi(strings.TrimPrefix(f[0], "#"))
				if err != nil {
					errf(l.line, "bad loop ordinal %q", f[0])
					continue
				}
				ls := cur.Loops[k]
				if ls == nil {
					ls = &LoopSpec{}
					cur.Loops[k] = ls
				}
				body := strings.TrimSpace(strings.TrimPrefix(strings.TrimSpace(strings.TrimPrefix(rest, f[0])), f[1]))
				switch f[1] {
				case "invariant":
					if c := parseClause(body, l.line); c != nil {
						ls.Invariants = append(ls.Invariants, c)
					}
				case "modifies":
					ls.HasMod = true
					ls.Modifies = append(ls.Modifies, parseLocs(body, l.line)...)
				case "decreases":
					ls.Decreases = parseClause(body, l.line)
				default:
					errf(l.line, "bad loop clause kind %q", f[1])
				}
			}
		}
	}
}

func splitCommaTop(s string) []string {
	var out []string
	depth := 0
	start := 0
	for i := 0; i < len(s); i++ {
		switch s[i] {
		case '(', '[', '{':
			depth++
		case ')', ']', '}':
			depth--
		case ',':
			if depth == 0 {
				out = append(out, s[start:i])
				start = i + 1
			}
		}
	}
	out = append(out, s[start:])
	return out
}

// LoadAll loads /repo/**/contracts_verif.go and /verif/contracts/**/*.spec
func LoadContracts(verifDir string) *ContractSet {
	cs := NewContractSet()
	filepath.Walk(filepath.Join(verifDir, "contracts"), func(p string, info os.FileInfo, err error) error {
		if err == nil && !info.IsDir() && strings.HasSuffix(p, ".spec") {
			cs.LoadFile(p, "", strings.Contains(p, "/trusted/"))
		}
		return nil
	})
	filepath.Walk(repoDir, func(p string, info os.FileInfo, err error) error {
		if err != nil {
			return nil
		}
		if info.IsDir() && (info.Name() == ".git" || info.Name() == "c-deps" || info.Name() == "node_modules") {
			return filepath.SkipDir
		}
		if !info.IsDir() && info.Name() == "contracts_verif.go" {
			rel, _ := filepath.Rel(repoDir, filepath.Dir(p))
			pkg := modPath
			if rel != "." {
				pkg = modPath + "/" + filepath.ToSlash(rel)
			}
			cs.LoadFile(p, pkg, false)
		}
		return nil
	})
	return cs
}
