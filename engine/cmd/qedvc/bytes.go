package main

// Ground saturation of the theory of byte strings for one VC.
//
// Bytes is an uninterpreted sort with cat (concatenation), H (the hash function),
// be64/be16 (big-endian encodings), blen (length). Instead of quantified axioms,
// which make the solver's answer depend on its instantiation heuristics, the
// axioms are instantiated at every H/cat/be term that occurs in the VC, once
// (instances only mention terms that already occur, so one round is complete
// for the congruence-closure style arguments the contracts need):
//
//   blen(cat(a,b)) = blen(a) + blen(b),   blen(x) >= 0
//   blen(H(x)) = hlenH                    (one hash function, fixed output length)
//   blen(be64(x)) = 8, blen(be16(x)) = 2
//   cat(a,b) = cat(c,d) /\ blen(a) = blen(c)  ==>  a = c /\ b = d      (cancellation)
//   be64(x) = be64(y) ==> x = y,  be16(x) = be16(y) ==> x = y
//   H(x) = H(y) ==> x = y          ** ASSUMPTION: collision resistance of the hash **
//
// Terms that mention a bound variable (q_*, tq_*) are skipped.

import (
	"sort"
	"strings"
)

const maxBytesTerms = 200

// collectApps finds every application (head ...) in the s-expression text.
func collectApps(text string, heads map[string]bool, out map[string][]string) {
	// find "(<head> " occurrences and cut the balanced term
	for h := range heads {
		pat := "(" + h + " "
		from := 0
		for {
			i := strings.Index(text[from:], pat)
			if i < 0 {
				break
			}
			i += from
			depth := 0
			j := i
			inBar := false
			for ; j < len(text); j++ {
				c := text[j]
				if c == '|' {
					inBar = !inBar
				}
				if inBar {
					continue
				}
				if c == '(' {
					depth++
				} else if c == ')' {
					depth--
					if depth == 0 {
						break
					}
				}
			}
			if j >= len(text) {
				break
			}
			t := text[i : j+1]
			if _, ok := out[t]; !ok {
				args := splitTop(t[len(pat) : len(t)-1])
				out[t] = append([]string{h}, args...)
			}
			from = i + len(pat)
		}
	}
}

func mentionsBound(t string) bool {
	return strings.Contains(t, "q_") || strings.Contains(t, "tq_")
}

// usesCollisionResistance reports whether a lemma set relies on H being injective.
// The length facts come back in lemmas; the pairwise ones (injectivity, cancellation:
// quadratically many) in pairwise: they are only added to a query that did not go through
// without them.
func bytesLemmas(goal string, asserts []string) (lemmas, pairwise []string, usedInj bool) {
	all := goal
	hasAny := strings.Contains(goal, "(H ") || strings.Contains(goal, "(cat ")
	for _, a := range asserts {
		if strings.Contains(a, "(H ") || strings.Contains(a, "(cat ") {
			hasAny = true
		}
	}
	if !hasAny {
		return nil, nil, false
	}
	var sb strings.Builder
	sb.WriteString(goal)
	for _, a := range asserts {
		if strings.Contains(a, "(H ") || strings.Contains(a, "(cat ") || strings.Contains(a, "(be64 ") || strings.Contains(a, "(be16 ") {
			sb.WriteString("\n")
			sb.WriteString(a)
		}
	}
	all = sb.String()
	terms := map[string][]string{}
	collectApps(all, map[string]bool{"H": true, "cat": true, "be64": true, "be16": true}, terms)
	var keys []string
	for t := range terms {
		if !mentionsBound(t) {
			keys = append(keys, t)
		}
	}
	sort.Strings(keys)
	if len(keys) > maxBytesTerms {
		keys = keys[:maxBytesTerms]
	}
	var hs, cats, b64, b16 []string
	for _, t := range keys {
		a := terms[t]
		switch a[0] {
		case "H":
			if len(a) == 2 {
				hs = append(hs, t)
				lemmas = append(lemmas, eq(app("blen", t), "hlenH"))
			}
		case "cat":
			if len(a) == 3 {
				cats = append(cats, t)
				lemmas = append(lemmas, eq(app("blen", t), app("+", app("blen", a[1]), app("blen", a[2]))),
					app(">=", app("blen", a[1]), "0"), app(">=", app("blen", a[2]), "0"))
			}
		case "be64":
			b64 = append(b64, t)
			lemmas = append(lemmas, eq(app("blen", t), "8"))
		case "be16":
			b16 = append(b16, t)
			lemmas = append(lemmas, eq(app("blen", t), "2"))
		}
	}
	for i := 0; i < len(hs); i++ {
		for j := i + 1; j < len(hs); j++ {
			x, y := terms[hs[i]][1], terms[hs[j]][1]
			pairwise = append(pairwise, imp(eq(hs[i], hs[j]), eq(x, y)))
			usedInj = true
		}
	}
	for i := 0; i < len(cats); i++ {
		for j := i + 1; j < len(cats); j++ {
			a, b := terms[cats[i]][1], terms[cats[i]][2]
			c, d := terms[cats[j]][1], terms[cats[j]][2]
			// terms that end in a position (be64 . be16, always 10 bytes) cancel from the right
			// without a premise; mixed pairs are left out (fewer case splits)
			pb, pd := strings.HasPrefix(b, "(cat (be64 ") && strings.Contains(b, "(be16 "), strings.HasPrefix(d, "(cat (be64 ") && strings.Contains(d, "(be16 ")
			switch {
			case pb && pd:
				pairwise = append(pairwise, imp(eq(cats[i], cats[j]), and(eq(a, c), eq(b, d))))
			case !pb && !pd:
				pairwise = append(pairwise, imp(and(eq(cats[i], cats[j]), eq(app("blen", a), app("blen", c))), and(eq(a, c), eq(b, d))))
			}
		}
	}
	for _, grp := range [][]string{b64, b16} {
		for i := 0; i < len(grp); i++ {
			for j := i + 1; j < len(grp); j++ {
				pairwise = append(pairwise, imp(eq(grp[i], grp[j]), eq(terms[grp[i]][1], terms[grp[j]][1])))
			}
		}
	}
	return lemmas, pairwise, usedInj
}

// recursesOnBound: fact is an unfolding instance "(= (f a1..an) BODY)" (possibly already
// wrapped in foralls). It reports whether BODY applies f again with an argument that differs
// from the head's and involves the bound variable v (recursion ON the bound variable).
func recursesOnBound(fact, v string) bool {
	f := fact
	for strings.HasPrefix(f, "(forall ((") {
		_, _, body, ok := parseForall(f)
		if !ok {
			return false
		}
		f = body
	}
	if !strings.HasPrefix(f, "(= (") {
		return false
	}
	parts := splitTop(f[3 : len(f)-1])
	if len(parts) != 2 || !strings.HasPrefix(parts[0], "(") {
		return false
	}
	head := splitTop(parts[0][1 : len(parts[0])-1])
	if len(head) < 2 {
		return false
	}
	name := head[0]
	apps := map[string][]string{}
	collectApps(parts[1], map[string]bool{name: true}, apps)
	for _, a := range apps {
		if len(a) != len(head) {
			continue
		}
		for i := 1; i < len(a); i++ {
			if a[i] != head[i] && (strings.Contains(a[i], v) || strings.Contains(head[i], v)) {
				return true
			}
		}
	}
	return false
}
