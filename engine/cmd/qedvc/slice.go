package main

// Cone-of-influence slicing and de-duplication of path VCs.
//
// A path VC carries every assumption made along its path. Only the
// assumptions that share (transitively) a declared constant with the goal can
// matter for it; dropping the others is sound (fewer hypotheses can only make
// a proof harder) and makes the many path VCs of one obligation textually
// identical, so each distinct query is solved once.

import (
	"crypto/sha256"
	"sort"
	"strings"
)

// symbolsOf extracts the declared constants mentioned in an s-expression.
func symbolsOf(s string, declared map[string]bool, out map[string]bool) {
	i := 0
	for i < len(s) {
		c := s[i]
		switch {
		case c == '|':
			j := strings.IndexByte(s[i+1:], '|')
			if j < 0 {
				return
			}
			name := s[i : i+j+2]
			if declared[name] {
				out[name] = true
			}
			i += j + 2
		case c == '(' || c == ')' || c == ' ' || c == '\n':
			i++
		default:
			j := i
			for j < len(s) && !strings.ContainsRune(" ()\n|", rune(s[j])) {
				j++
			}
			name := s[i:j]
			if declared[name] {
				out[name] = true
			}
			i = j
		}
	}
}

func declName(d string) string {
	// (declare-const NAME SORT)
	const p = "(declare-const "
	if !strings.HasPrefix(d, p) {
		return ""
	}
	rest := d[len(p):]
	if strings.HasPrefix(rest, "|") {
		j := strings.IndexByte(rest[1:], '|')
		if j < 0 {
			return ""
		}
		return rest[:j+2]
	}
	j := strings.IndexByte(rest, ' ')
	if j < 0 {
		return ""
	}
	return rest[:j]
}

// sliceVC keeps only the hypotheses in the goal's cone of influence.
func sliceVC(vc *VC) {
	if vc.ExpectSat || vc.Goal == "" || len(vc.Asserts) < 8 {
		return
	}
	declared := map[string]bool{}
	for _, d := range vc.Decls {
		if n := declName(d); n != "" {
			declared[n] = true
		}
	}
	syms := make([]map[string]bool, len(vc.Asserts))
	for i, a := range vc.Asserts {
		m := map[string]bool{}
		symbolsOf(a, declared, m)
		syms[i] = m
	}
	cone := map[string]bool{}
	symbolsOf(vc.Goal, declared, cone)
	keep := make([]bool, len(vc.Asserts))
	// hypotheses without any declared constant (ground facts about globals) are kept
	for i := range syms {
		if len(syms[i]) == 0 {
			keep[i] = true
		}
	}
	for changed := true; changed; {
		changed = false
		for i := range vc.Asserts {
			if keep[i] {
				continue
			}
			hit := false
			for s := range syms[i] {
				if cone[s] {
					hit = true
					break
				}
			}
			if hit {
				keep[i] = true
				changed = true
				for s := range syms[i] {
					cone[s] = true
				}
			}
		}
	}
	var out []string
	for i, a := range vc.Asserts {
		if keep[i] {
			out = append(out, a)
		}
	}
	vc.FullAsserts = vc.Asserts
	vc.Asserts = out
}

func vcKey(vc *VC) [32]byte {
	as := append([]string(nil), vc.Asserts...)
	sort.Strings(as)
	h := sha256.New()
	for _, a := range as {
		h.Write([]byte(a))
		h.Write([]byte{0})
	}
	h.Write([]byte("GOAL"))
	h.Write([]byte(vc.Goal))
	if vc.ExpectSat {
		h.Write([]byte("SAT"))
	}
	var k [32]byte
	copy(k[:], h.Sum(nil))
	return k
}

// dedupeVCs returns the representatives to solve and a function that copies
// their results to the duplicates afterwards.
func dedupeVCs(vcs []*VC) ([]*VC, func()) {
	rep := map[[32]byte]*VC{}
	dup := map[*VC][]*VC{}
	var out []*VC
	for _, vc := range vcs {
		sliceVC(vc)
		k := vcKey(vc)
		if r, ok := rep[k]; ok {
			dup[r] = append(dup[r], vc)
			continue
		}
		rep[k] = vc
		out = append(out, vc)
	}
	return out, func() {
		for r, ds := range dup {
			for _, d := range ds {
				d.Result, d.Solver, d.Model, d.Agree, d.File = r.Result, r.Solver, r.Model, r.Agree, r.File
			}
		}
	}
}
