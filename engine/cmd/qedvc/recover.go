package main

// Panic recovery: a function that defers a closure calling recover() catches
// the panics of its body and of everything it calls. A potential panic inside
// such a dynamic extent is not an obligation; instead the path is forked: on
// the panicking branch control unwinds to the recovering frame, its deferred
// calls run (recover() returns non-nil), and execution resumes in the
// function's recover block (named results are returned).

import (
	"golang.org/x/tools/go/ssa"
)

func closureCallsRecover(fn *ssa.Function) bool {
	if fn == nil || fn.Blocks == nil {
		return false
	}
	for _, b := range fn.Blocks {
		for _, ins := range b.Instrs {
			if c, ok := ins.(*ssa.Call); ok {
				if bi, ok := c.Call.Value.(*ssa.Builtin); ok && bi.Name() == "recover" {
					return true
				}
			}
		}
	}
	return false
}

// recoveringFrame returns the index of the innermost frame with a pending
// deferred recover, or -1.
func (st *State) recoveringFrame() int {
	for i := len(st.frames) - 1; i >= 0; i-- {
		for _, d := range st.frames[i].defers {
			if d.fnv.Fn != nil && closureCallsRecover(d.fnv.Fn) {
				return i
			}
		}
	}
	return -1
}

// unwindTo turns the state into "panicking, about to run the defers of frame i".
// Returns false if unwinding is not modelled (inner frames with pending defers).
func (st *State) unwindTo(i int) bool {
	for j := len(st.frames) - 1; j > i; j-- {
		if len(st.frames[j].defers) > 0 {
			st.res.Errors = append(st.res.Errors, "panic unwinds through "+st.frames[j].fn.Name()+" which has pending deferred calls (not modelled)")
			return false
		}
	}
	st.frames = st.frames[:i+1]
	f := st.frames[i]
	st.panicking = true
	rb := f.fn.Recover
	if rb == nil {
		st.res.Errors = append(st.res.Errors, "function "+f.fn.Name()+" recovers but has no recover block")
		return false
	}
	// run the deferred calls, then continue at the recover block
	f.prev = f.block
	f.block = rb
	f.idx = 0
	f.pendingRecover = true
	return true
}

// maybePanic handles a potential panic with condition `ok` (no panic iff ok).
// Returns the forked panicking state (or nil) when a recover is pending; the
// caller continues on the non-panicking branch with `ok` assumed.
func (st *State) maybePanic(ok string) (*State, bool) {
	i := st.recoveringFrame()
	if i < 0 {
		return nil, false
	}
	if ok == "true" {
		return nil, true
	}
	other := st.clone()
	other.assume(not(ok))
	if !other.unwindTo(i) {
		return nil, true
	}
	return other, true
}
