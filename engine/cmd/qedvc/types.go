package main

// Go types -> SMT sorts, zero values, well-formedness (type invariants).

import (
	"fmt"
	"go/types"
	"strings"
	"sync"
)

type TypeEnv struct {
	pre      *Preamble
	mu       sync.Mutex
	sortOf   map[string]Sort // by types.TypeString
	structOf map[Sort]*types.Struct
	typeIDs  map[string]int
	typeByID map[int]types.Type
}

func NewTypeEnv(pre *Preamble) *TypeEnv {
	return &TypeEnv{pre: pre, sortOf: map[string]Sort{}, structOf: map[Sort]*types.Struct{}, typeIDs: map[string]int{}, typeByID: map[int]types.Type{}}
}

func typeStr(t types.Type) string {
	return types.TypeString(t, func(p *types.Package) string { return p.Path() })
}

func mangleType(t types.Type) string {
	s := typeStr(t)
	s = strings.TrimPrefix(s, modPath+"/")
	s = strings.ReplaceAll(s, modPath+"/", "")
	r := strings.NewReplacer("/", "_", ".", "_", "*", "p_", "[", "L", "]", "R", " ", "_", "{", "_", "}", "_", ";", "_", "(", "_", ")", "_", ",", "_", "\"", "", ":", "_", "-", "_", "<", "_", ">", "_")
	s = r.Replace(s)
	if len(s) > 80 {
		s = fmt.Sprintf("%s_%x", s[:60], hashStr(s))
	}
	return s
}

func hashStr(s string) uint32 {
	var h uint32 = 2166136261
	for i := 0; i < len(s); i++ {
		h = (h ^ uint32(s[i])) * 16777619
	}
	return h
}

// TypeID gives a positive integer identifying a concrete (dynamic) type.
func (te *TypeEnv) TypeID(t types.Type) int {
	te.mu.Lock()
	defer te.mu.Unlock()
	k := typeStr(t)
	if id, ok := te.typeIDs[k]; ok {
		return id
	}
	id := len(te.typeIDs) + 1
	te.typeIDs[k] = id
	te.typeByID[id] = t
	// plain_tag(id): values of this dynamic type are printed by fmt's verbs through reflection -
	// the type has none of the methods fmt looks for first (String, Error, Format, GoString)
	plain := true
	for _, mt := range []types.Type{t, types.NewPointer(t)} {
		ms := types.NewMethodSet(mt)
		for i := 0; i < ms.Len(); i++ {
			switch ms.At(i).Obj().Name() {
			case "String", "Error", "Format", "GoString":
				plain = false
			}
		}
	}
	te.pre.Fun("plain_tag", "(Int) Bool")
	te.pre.Axiom(fmt.Sprintf("(= (plain_tag %d) %v)", id, plain))
	return id
}

func (te *TypeEnv) SortOf(t types.Type) Sort {
	switch u := t.Underlying().(type) {
	case *types.Basic:
		switch {
		case u.Info()&types.IsBoolean != 0:
			return SBool
		case u.Info()&types.IsString != 0:
			return SStr
		case u.Info()&types.IsInteger != 0:
			return BV(intBits(u))
		case u.Info()&types.IsFloat != 0, u.Info()&types.IsComplex != 0:
			return SFloat
		case u.Kind() == types.UnsafePointer:
			return SRef
		case u.Kind() == types.UntypedNil:
			return SRef
		}
		return SRef
	case *types.Pointer, *types.Map, *types.Chan, *types.Signature:
		return SRef
	case *types.Slice:
		return SSlice
	case *types.Interface:
		return SIface
	case *types.Array:
		return ArrSort(BV(64), te.SortOf(u.Elem()))
	case *types.Struct:
		return te.structSort(t, u)
	case *types.Tuple:
		return "Tuple"
	case *types.TypeParam:
		return SIface
	}
	return SRef
}

func intBits(b *types.Basic) int {
	switch b.Kind() {
	case types.Int8, types.Uint8:
		return 8
	case types.Int16, types.Uint16:
		return 16
	case types.Int32, types.Uint32:
		return 32
	}
	return 64
}

func isSigned(t types.Type) bool {
	if b, ok := t.Underlying().(*types.Basic); ok {
		return b.Info()&types.IsInteger != 0 && b.Info()&types.IsUnsigned == 0
	}
	return false
}

func (te *TypeEnv) structSort(t types.Type, st *types.Struct) Sort {
	key := typeStr(t)
	te.mu.Lock()
	if s, ok := te.sortOf[key]; ok {
		te.mu.Unlock()
		return s
	}
	name := Sort("S_" + mangleType(t))
	te.sortOf[key] = name
	te.structOf[name] = st
	te.mu.Unlock()
	var fields []string
	for i := 0; i < st.NumFields(); i++ {
		fs := te.SortOf(st.Field(i).Type())
		fields = append(fields, fmt.Sprintf("(%s_f%d %s)", name, i, fs))
	}
	decl := fmt.Sprintf("(declare-datatypes ((%s 0)) (((mk_%s %s))))", name, name, strings.Join(fields, " "))
	if len(fields) == 0 {
		decl = fmt.Sprintf("(declare-datatypes ((%s 0)) (((mk_%s))))", name, name)
	}
	te.pre.Datatype(string(name), decl)
	return name
}

func (te *TypeEnv) StructMk(s Sort, fields []string) string {
	if len(fields) == 0 {
		return "mk_" + string(s)
	}
	return app("mk_"+string(s), fields...)
}
func (te *TypeEnv) StructGet(s Sort, i int, v string) string {
	// fold (S_f_i (mk_S a b c))
	pfx := "(mk_" + string(s) + " "
	if strings.HasPrefix(v, pfx) {
		args := splitTop(v[len(pfx) : len(v)-1])
		if i < len(args) {
			return args[i]
		}
	}
	return app(fmt.Sprintf("%s_f%d", s, i), v)
}

// splitTop splits a space separated list of s-expressions at top level.
func splitTop(s string) []string {
	var out []string
	depth := 0
	start := -1
	inBar := false
	for i := 0; i < len(s); i++ {
		c := s[i]
		if inBar {
			if c == '|' {
				inBar = false
			}
			continue
		}
		switch c {
		case '|':
			inBar = true
			if start < 0 {
				start = i
			}
		case '(':
			if start < 0 {
				start = i
			}
			depth++
		case ')':
			depth--
		case ' ', '\n', '\t':
			if depth == 0 && start >= 0 {
				out = append(out, s[start:i])
				start = -1
			}
		default:
			if start < 0 {
				start = i
			}
		}
	}
	if start >= 0 {
		out = append(out, s[start:])
	}
	return out
}

const nilRef = "(mkref 0)"
const nilSlice = "(mk_slice (mkref 0) (_ bv0 64) (_ bv0 64) (_ bv0 64))"
const nilIface = "(mk_iface 0 (mkref 0))"

func (te *TypeEnv) Zero(t types.Type) string {
	s := te.SortOf(t)
	switch {
	case s == SBool:
		return "false"
	case s.IsBV():
		return bvInt(0, s.Bits())
	case s == SRef:
		return nilRef
	case s == SStr:
		return te.pre.StrLit("")
	case s == SSlice:
		return nilSlice
	case s == SIface:
		return nilIface
	case s == SFloat:
		te.pre.Fun("float_zero", "() Float")
		return "float_zero"
	}
	switch u := t.Underlying().(type) {
	case *types.Array:
		return fmt.Sprintf("((as const %s) %s)", s, te.Zero(u.Elem()))
	case *types.Struct:
		var fs []string
		for i := 0; i < u.NumFields(); i++ {
			fs = append(fs, te.Zero(u.Field(i).Type()))
		}
		return te.StructMk(s, fs)
	}
	return nilRef
}

// WF returns the type invariant of a term of Go type t ("true" if none).
func (te *TypeEnv) WF(t types.Type, term string, depth int) string {
	switch u := t.Underlying().(type) {
	case *types.Slice:
		ln, cp, off := app("s_len", term), app("s_cap", term), app("s_off", term)
		max := bvInt(1<<40, 64)
		return and(
			app("bvsle", bvInt(0, 64), ln), app("bvsle", ln, cp), app("bvsle", cp, max),
			app("bvsle", bvInt(0, 64), off), app("bvsle", off, max),
			imp(eq(app("s_ref", term), nilRef), eq(cp, bvInt(0, 64))))
	case *types.Struct:
		if depth > 2 {
			return "true"
		}
		s := te.SortOf(t)
		var cs []string
		for i := 0; i < u.NumFields(); i++ {
			cs = append(cs, te.WF(u.Field(i).Type(), te.StructGet(s, i, term), depth+1))
		}
		return and(cs...)
	case *types.Basic:
		if u.Info()&types.IsString != 0 {
			return and(app("bvsle", bvInt(0, 64), app("slen", term)), app("bvsle", app("slen", term), bvInt(1<<40, 64)))
		}
	case *types.Interface:
		return and(app(">=", app("i_tag", term), "0"), imp(eq(app("i_tag", term), "0"), eq(app("i_ref", term), nilRef)))
	}
	return "true"
}

// isPointerLike: values whose SMT sort is Ref.
func (te *TypeEnv) isRefSort(t types.Type) bool { return te.SortOf(t) == SRef }
