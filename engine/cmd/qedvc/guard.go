package main

// Lock discipline: "guarded T.f by T.mu" makes every access (address
// computation) of field f an obligation that the mutex mu of the same object
// is held. Held-ness is the ghost array `held` (declared in ghost.spec) that
// the trusted contracts of sync.Mutex / sync.RWMutex Lock/Unlock update. This
// is a sequential, per-function check of a necessary condition for race
// freedom; it is not a proof of race freedom.

import (
	"go/types"
	"strings"

	"golang.org/x/tools/go/ssa"
)

func (st *State) guardCheck(f *Frame, x *ssa.FieldAddr, base string) {
	T := x.X.Type().Underlying().(*types.Pointer).Elem()
	n, ok := T.(*types.Named)
	if !ok || n.Obj().Pkg() == nil {
		return
	}
	g := st.eng.cs.Guards[n.Obj().Pkg().Path()+"."+n.Obj().Name()+"."+fieldName(x)]
	if g == nil {
		return
	}
	k := fnKey(f.fn)
	for _, e := range g.Except {
		if strings.HasSuffix(k, "."+e) {
			return
		}
	}
	stt := n.Underlying().(*types.Struct)
	lockIdx := -1
	for i := 0; i < stt.NumFields(); i++ {
		if stt.Field(i).Name() == g.Lock {
			lockIdx = i
		}
	}
	if lockIdx < 0 {
		st.res.Errors = append(st.res.Errors, "guarded: no lock field "+g.Lock+" in "+g.Type)
		return
	}
	lockAddr := st.eng.fsub(base, T, lockIdx)
	held := st.heapGet(st.heap, "ghost_held", ArrSort(SRef, SBool))
	st.oblige("pre", "guard:"+st.eng.ordinal(f.fn, x, "nil")+":"+g.Type+"."+g.Field, app("select", held, lockAddr),
		"access to "+g.Type+"."+g.Field+" without holding "+g.Type+"."+g.Lock+" at "+st.pos(x))
}
