package main

// Package-private field framing.
//
// An unexported field of a struct type declared in module package P can only be
// written by code of P. The cells of each such field live in their own heap
// array; a call whose frame is "everything" into a package that cannot reach P
// (P is not among the callee package's transitive imports, and the callee is
// not P itself) leaves those arrays untouched. This is what lets
// Balloon.version survive a call into balloon/history, or RaftNode.state a
// call into balloon, without spelling out frames nobody can write down.
//
// Requirements, checked syntactically on every run: the field's address is
// never taken for anything but a load or a store (otherwise the field is not
// treated specially). External (non-module) code is assumed not to call back
// into the module while it runs (listed as an assumption where it matters).

import (
	"go/token"
	"go/types"
	"strings"

	"golang.org/x/tools/go/packages"
	"golang.org/x/tools/go/ssa"
)

const privBase = 200000

type PrivField struct {
	Key      string
	Owner    string // package path
	ID       int
	Disabled bool
}

func (e *Engine) computePrivateFields() {
	e.privFields = map[string]*PrivField{}
	e.privByID = map[int]*PrivField{}
	id := privBase
	for _, path := range sortedKeys(e.prog.Pkgs) {
		if !strings.HasPrefix(path, modPath) || strings.HasSuffix(path, "/rocksdb") {
			continue
		}
		pk := e.prog.Pkgs[path]
		if pk.Types == nil {
			continue
		}
		sc := pk.Types.Scope()
		for _, name := range sc.Names() {
			tn, ok := sc.Lookup(name).(*types.TypeName)
			if !ok {
				continue
			}
			st, ok := tn.Type().Underlying().(*types.Struct)
			if !ok {
				continue
			}
			for i := 0; i < st.NumFields(); i++ {
				f := st.Field(i)
				if f.Exported() || f.Embedded() {
					continue
				}
				key := path + "." + name + "." + f.Name()
				if e.cs.ImmFields[key] != nil {
					continue
				}
				id++
				pf := &PrivField{Key: key, Owner: path, ID: id}
				e.privFields[key] = pf
				e.privByID[id] = pf
			}
		}
	}
	// escape check
	for _, fn := range allFunctions(e, "") {
		for _, b := range fn.Blocks {
			for _, ins := range b.Instrs {
				fa, ok := ins.(*ssa.FieldAddr)
				if !ok {
					continue
				}
				n, ok := fa.X.Type().Underlying().(*types.Pointer).Elem().(*types.Named)
				if !ok || n.Obj().Pkg() == nil {
					continue
				}
				pf := e.privFields[n.Obj().Pkg().Path()+"."+n.Obj().Name()+"."+fieldName(fa)]
				if pf == nil {
					continue
				}
				for _, r := range *fa.Referrers() {
					switch x := r.(type) {
					case *ssa.UnOp:
						if x.Op == token.MUL {
							continue
						}
					case *ssa.DebugRef:
						continue
					case *ssa.Store:
						if x.Addr == fa {
							continue
						}
					case *ssa.FieldAddr, *ssa.IndexAddr:
						// nested value (struct/array field): its sub-cells are addressed through sub/elem of
						// this address and live in the shared arrays; treat as escaping unless only loaded
						if onlyLoaded(x.(ssa.Value), 0) {
							continue
						}
					}
					pf.Disabled = true
				}
			}
		}
	}
	// import closures
	e.reach = map[string]map[string]bool{}
	var visit func(p *packages.Package, acc map[string]bool)
	visit = func(p *packages.Package, acc map[string]bool) {
		for ip, imp := range p.Imports {
			if !acc[ip] {
				acc[ip] = true
				visit(imp, acc)
			}
		}
	}
	for path, pk := range e.prog.Pkgs {
		acc := map[string]bool{path: true}
		visit(pk, acc)
		e.reach[path] = acc
	}
}

// privSub: separate-array address for a private field, or "".
func (e *Engine) privSub(addr string, n *types.Named, st *types.Struct, i int) string {
	if e.privFields == nil || n.Obj().Pkg() == nil {
		return ""
	}
	pf := e.privFields[n.Obj().Pkg().Path()+"."+n.Obj().Name()+"."+st.Field(i).Name()]
	if pf == nil || pf.Disabled {
		return ""
	}
	// nested structs/arrays stay in the shared arrays (their cells are sub-addresses)
	switch st.Field(i).Type().Underlying().(type) {
	case *types.Struct, *types.Array:
		return ""
	}
	return sub(addr, pf.ID)
}

// canWrite reports whether code of calleePkgs can write the private field with this id.
func (e *Engine) canWrite(id int, calleePkgs []string) bool {
	pf := e.privByID[id]
	if pf == nil {
		return true
	}
	for _, cp := range calleePkgs {
		if !strings.HasPrefix(cp, modPath) {
			continue // external code cannot name module-private fields
		}
		if r := e.reach[cp]; r == nil || r[pf.Owner] {
			return true
		}
	}
	return false
}

// implementers: module packages declaring a type that implements the interface of method m.
func (e *Engine) implementerPkgs(m *types.Func) []string {
	sig, ok := m.Type().(*types.Signature)
	if !ok || sig.Recv() == nil {
		return nil
	}
	iface, ok := sig.Recv().Type().Underlying().(*types.Interface)
	if !ok {
		return nil
	}
	seen := map[string]bool{}
	var out []string
	if m.Pkg() != nil {
		seen[m.Pkg().Path()] = true
		out = append(out, m.Pkg().Path())
	}
	for path, pk := range e.prog.Pkgs {
		if !strings.HasPrefix(path, modPath) || pk.Types == nil {
			continue
		}
		sc := pk.Types.Scope()
		for _, name := range sc.Names() {
			tn, ok := sc.Lookup(name).(*types.TypeName)
			if !ok {
				continue
			}
			T := tn.Type()
			if types.IsInterface(T) {
				continue
			}
			if types.Implements(T, iface) || types.Implements(types.NewPointer(T), iface) {
				if !seen[path] {
					seen[path] = true
					out = append(out, path)
				}
			}
		}
	}
	return out
}
