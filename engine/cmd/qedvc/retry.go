package main

import (
	"math/big"
	"fmt"
	"os"
	"strings"
)

// replayWithRetries: if the first model does not reproduce on the real code
// (callee results are abstract, so the solver is free to pick scalars for which
// the real callee behaves differently), ask for other models in which the
// scalar inputs differ, a few times.
func replayWithRetries(eng *Engine, vc *VC, cfg checkCfg, scratch, pre string) *ReplayResult {
	// prefer a small model: lengths <= 48, integers of moderate size
	var small []string
	for _, mv := range vc.ModelVars {
		if strings.HasSuffix(mv.Name, "#len") && mv.Sort.IsBV() {
			small = append(small, app("bvule", mv.Term, bvInt(48, mv.Sort.Bits())))
		} else if mv.Sort.IsBV() && mv.Sort.Bits() == 64 && !strings.Contains(mv.Name, "[") {
			small = append(small, app("or", app("bvule", mv.Term, bvInt(1<<16, 64)), app("bvuge", mv.Term, bvLit(new(big.Int).Sub(new(big.Int).Lsh(big.NewInt(1), 64), big.NewInt(1<<16)), 64))))
		}
	}
	if len(small) > 0 {
		sm := *vc
		sm.Asserts = append(append([]string(nil), vc.Asserts...), small...)
		sm.Result, sm.Model, sm.Solver = "", "", ""
		dischargeEach([]*VC{&sm}, pre, scratch, 10, false, 1)
		if sm.Result == "sat" {
			if r := Replay(eng, &sm, cfg, scratch); r != nil && r.Confirmed {
				vc.Model = sm.Model
				if sm.File != "" {
					vc.File = sm.File
				}
				return r
			}
		}
	}
	rr := Replay(eng, vc, cfg, scratch)
	if rr == nil || rr.Confirmed || rr.TestSrc == "" {
		return rr
	}
	first := rr
	cur := *vc
	var blocked []string
	for attempt := 0; attempt < 4; attempt++ {
		m := parseModel(&cur)
		if m == nil {
			break
		}
		var all []string
		for _, mv := range cur.ModelVars {
			if !mv.Sort.IsBV() || mv.Sort.Bits() < 16 || strings.Contains(mv.Name, "[") {
				continue
			}
			if v := m.vals[mv.Name]; v != nil {
				all = append(all, fmt.Sprintf("(distinct %s %s)", mv.Term, v.String()))
			}
		}
		if len(all) == 0 {
			break
		}
		// first try: every scalar differs; later: at least one differs
		if attempt < 2 {
			blocked = append(blocked, all...)
		} else {
			blocked = append(blocked, "(or "+strings.Join(all, " ")+")")
		}
		next := *vc
		next.Asserts = append(append([]string(nil), vc.Asserts...), blocked...)
		next.Result, next.Model, next.Solver = "", "", ""
		dischargeEach([]*VC{&next}, pre, scratch, 10, false, 1)
		if next.Result != "sat" {
			if attempt < 2 {
				// too strong: fall back to the weaker blocking clause
				blocked = blocked[:len(blocked)-len(all)]
				blocked = append(blocked, "(or "+strings.Join(all, " ")+")")
				next.Asserts = append(append([]string(nil), vc.Asserts...), blocked...)
				next.Result, next.Model, next.Solver = "", "", ""
				dischargeEach([]*VC{&next}, pre, scratch, 10, false, 1)
			}
			if next.Result != "sat" {
				break
			}
		}
		r2 := Replay(eng, &next, cfg, scratch)
		if r2 != nil && r2.Confirmed {
			vc.Model = next.Model
			if next.File != "" {
				vc.File = next.File
			}
			return r2
		}
		cur = next
	}
	_ = os.Stderr
	return first
}
