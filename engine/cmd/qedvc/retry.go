package main

import (
	"fmt"
	"os"
	"strings"
)

// replayWithRetries: if the first model does not reproduce on the real code
// (callee results are abstract, so the solver is free to pick scalars for which
// the real callee behaves differently), ask for other models in which the
// scalar inputs differ, a few times.
func replayWithRetries(eng *Engine, vc *VC, cfg checkCfg, scratch, pre string) *ReplayResult {
	rr := Replay(eng, vc, cfg, scratch)
	if rr == nil || rr.Confirmed || rr.TestSrc == "" {
		return rr
	}
	first := rr
	cur := *vc
	var blocked []string
	for attempt := 0; attempt < 4; attempt++ {
		m := parseModel(&cur)
		if m == nil {
			break
		}
		var all []string
		for _, mv := range cur.ModelVars {
			if !mv.Sort.IsBV() || mv.Sort.Bits() < 16 || strings.Contains(mv.Name, "[") {
				continue
			}
			if v := m.vals[mv.Name]; v != nil {
				all = append(all, fmt.Sprintf("(distinct %s %s)", mv.Term, v.String()))
			}
		}
		if len(all) == 0 {
			break
		}
		// first try: every scalar differs; later: at least one differs
		if attempt < 2 {
			blocked = append(blocked, all...)
		} else {
			blocked = append(blocked, "(or "+strings.Join(all, " ")+")")
		}
		next := *vc
		next.Asserts = append(append([]string(nil), vc.Asserts...), blocked...)
		next.Result, next.Model, next.Solver = "", "", ""
		dischargeEach([]*VC{&next}, pre, scratch, 10, false, 1)
		if next.Result != "sat" {
			if attempt < 2 {
				// too strong: fall back to the weaker blocking clause
				blocked = blocked[:len(blocked)-len(all)]
				blocked = append(blocked, "(or "+strings.Join(all, " ")+")")
				next.Asserts = append(append([]string(nil), vc.Asserts...), blocked...)
				next.Result, next.Model, next.Solver = "", "", ""
				dischargeEach([]*VC{&next}, pre, scratch, 10, false, 1)
			}
			if next.Result != "sat" {
				break
			}
		}
		r2 := Replay(eng, &next, cfg, scratch)
		if r2 != nil && r2.Confirmed {
			vc.Model = next.Model
			if next.File != "" {
				vc.File = next.File
			}
			return r2
		}
		cur = next
	}
	_ = os.Stderr
	return first
}
