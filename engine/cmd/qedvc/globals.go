package main

// Non-nil package-level variables: a variable that is never reassigned after
// package initialisation (constGlobal) and whose initialiser is a fresh
// object, an interface conversion, or a call into a package declared
// `nonnilpkg` (constructors that never return nil, e.g. prometheus.NewCounter)
// is known to be non-nil wherever it is read.

import (
	"strings"

	"golang.org/x/tools/go/ssa"
)

func (e *Engine) findNonNilGlobals() {
	e.nonNilGlobal = map[*ssa.Global]bool{}
	for _, sp := range e.prog.SSAPkgs {
		init := sp.Func("init")
		if init == nil {
			continue
		}
		fns := []*ssa.Function{init}
		for len(fns) > 0 {
			f := fns[0]
			fns = fns[1:]
			for _, b := range f.Blocks {
				for _, ins := range b.Instrs {
					// package init calls the synthesized init#N functions
					if c, ok := ins.(*ssa.Call); ok {
						if callee := c.Call.StaticCallee(); callee != nil && callee.Pkg == sp && strings.HasPrefix(callee.Name(), "init") && callee != f {
							fns = append(fns, callee)
						}
					}
					st, ok := ins.(*ssa.Store)
					if !ok {
						continue
					}
					g, ok := st.Addr.(*ssa.Global)
					if !ok || !e.constGlobal[g] {
						continue
					}
					if e.nonNilValue(st.Val, 0) {
						e.nonNilGlobal[g] = true
					}
				}
			}
		}
	}
}

// nonNilValueFn: the function belongs to a package declared `nonnilpkg`.
func (e *Engine) nonNilValueFn(callee *ssa.Function) bool {
	path := ""
	if callee.Pkg != nil {
		path = callee.Pkg.Pkg.Path()
	} else if callee.Object() != nil && callee.Object().Pkg() != nil {
		path = callee.Object().Pkg().Path()
	}
	for _, p := range e.cs.NonNilPkgs {
		if path == p || (strings.HasSuffix(p, "/...") && strings.HasPrefix(path, strings.TrimSuffix(p, "/..."))) {
			return true
		}
	}
	return false
}

func (e *Engine) nonNilValue(v ssa.Value, depth int) bool {
	if depth > 3 {
		return false
	}
	switch x := v.(type) {
	case *ssa.MakeInterface, *ssa.Alloc, *ssa.MakeMap, *ssa.MakeChan, *ssa.MakeClosure, *ssa.Function:
		return true
	case *ssa.ChangeInterface:
		return e.nonNilValue(x.X, depth+1)
	case *ssa.ChangeType:
		return e.nonNilValue(x.X, depth+1)
	case *ssa.Call:
		callee := x.Call.StaticCallee()
		if callee == nil {
			return false
		}
		path := ""
		if callee.Pkg != nil {
			path = callee.Pkg.Pkg.Path()
		} else if callee.Object() != nil && callee.Object().Pkg() != nil {
			path = callee.Object().Pkg().Path()
		}
		for _, p := range e.cs.NonNilPkgs {
			if path == p || (strings.HasSuffix(p, "/...") && strings.HasPrefix(path, strings.TrimSuffix(p, "/..."))) {
				return true
			}
		}
	}
	return false
}
