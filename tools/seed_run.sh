#!/bin/bash
# seed_run.sh <id> [props...]: apply /verif/seeded/<id>/patch.diff to /repo, run the quick checks of the given
# properties (default: the seed's own property), print the VIOLATION lines, and undo the change.
id=$1; shift
props="$@"; [ -z "$props" ] && props=${id%%-*}
cd /repo || exit 2
if [ -n "$(git status --porcelain)" ]; then echo "/repo is not clean"; exit 2; fi
git apply /verif/seeded/$id/patch.diff || exit 2
# evidence of a deliberately broken tree must not replace the evidence of the real one
export QEDVC_EVIDENCE_DIR=$(mktemp -d /tmp/qedvc-seed-evidence.XXXXXX)
for p in $props; do
  out=$(/verif/bin/qedvc check -property $p -tier quick 2>&1)
  echo "$out" | grep "^VIOLATION\|^KNOWN\|UNDECIDED" | sed 's/replay=.verif.replays./ /' | cut -c1-200 | sed "s/^/  [$id on $p] /"
  echo "$out" | tail -1 | sed "s/^/  [$id on $p] /"
done
git checkout -- . && git status --porcelain | head -3
rm -rf "$QEDVC_EVIDENCE_DIR"
