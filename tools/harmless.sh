#!/bin/bash
# harmless.sh: the must-pass corpus. Every behaviour-preserving refactor in /verif/harmless/ is applied to /repo,
# the quick check of the property whose contracts it touches must stay silent (the one listed exception raises the
# alarm DESIGN.md 0.6 explains), and the change is undone. Exit 1 on an unexpected alarm.
cd /verif || exit 2
fail=0
grep -v '^#' harmless/LIST | while read id prop exp; do
  [ -z "$id" ] && continue
  if [ -n "$(git -C /repo status --porcelain)" ]; then echo "/repo is not clean"; exit 2; fi
  git -C /repo apply /verif/harmless/$id.diff || { echo "APPLY-FAILED $id"; continue; }
  export QEDVC_EVIDENCE_DIR=$(mktemp -d /tmp/qedvc-harmless-evidence.XXXXXX)
  out=$(/verif/bin/qedvc check -property $prop -tier quick -noreplay 2>&1)
  rm -rf "$QEDVC_EVIDENCE_DIR"
  git -C /repo checkout -- .
  n=$(echo "$out" | grep -c "^VIOLATION")
  if [ "$exp" = "silent" ]; then
    if [ "$n" = 0 ]; then echo "OK    $id on $prop: silent"; else echo "ALARM $id on $prop: $(echo "$out" | grep -m1 '^VIOLATION' | sed 's/.*C[0-9][0-9]__//' | cut -c1-100)"; fi
  else
    echo "KNOWN $id on $prop: $n alarm(s), expected ${exp#alarm:}: $(echo "$out" | grep -m1 '^VIOLATION' | sed 's/.*C[0-9][0-9]__//' | cut -c1-100)"
  fi
done
