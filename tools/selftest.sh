#!/bin/bash
# selftest.sh: the must-fail corpus. Every stored seeded change (/verif/seeded/<id>/) whose meta.json names a
# detecting check is applied to /repo, that property's quick check must report a VIOLATION, and the change is undone.
# Run this after every change to the engine or to a contract. Exit 1 if a seeded change is no longer detected.
cd /verif || exit 2
fail=0
for d in seeded/*/; do
  id=$(basename $d)
  prop=$(python3 -c "import json,sys; m=json.load(open('$d/meta.json')); v=m.get('detected_by'); print(v.split(':')[0] if v else '')")
  if [ -z "$prop" ]; then echo "SKIP $id (recorded as not detected)"; continue; fi
  out=$(tools/seed_run.sh $id $prop 2>&1)
  if echo "$out" | grep -q "VIOLATION property=$prop"; then
    echo "OK   $id detected by $prop: $(echo "$out" | grep -m1 VIOLATION | sed 's/.*C[0-9][0-9]__//' | cut -c1-100)"
  else
    echo "MISS $id NOT detected by $prop"; echo "$out" | tail -3; fail=1
  fi
done
[ -n "$(git -C /repo status --porcelain)" ] && { echo "/repo left dirty"; fail=1; }
exit $fail
