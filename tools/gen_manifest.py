#!/usr/bin/env python3
"""Generates /verif/MANIFEST.json from the table below (kept here so the manifest stays valid)."""
import json, subprocess

HOOK_COMMITS = subprocess.run(
    ["git", "-C", "/repo", "log", "--format=%h %s"], capture_output=True, text=True).stdout.splitlines()
hooks = [l.split()[0] for l in HOOK_COMMITS if "verif hooks" in l]

TECH = "contract-based deductive verification: WP/symbolic execution over go/ssa of the real functions, contracts in //+build verif comment files, obligations discharged by z3/cvc5"

# id -> (claimed?, level text, level note, design ref)
CLAIMS = {
    "C02": ("Proof, for all proofs/digests/snapshots, that the real balloon.MembershipProof.DigestVerify (and client.MembershipVerify) only accept when Exists and ActualVersion <= QueryVersion and both sub-proofs are present (postconditions taken from the property statement); that protocol.ToBalloonProof wires the history proof to (ActualVersion, QueryVersion) and the hyper proof to the key digest; plus panic-freedom and termination of the history/hyper verifier functions it calls. HISTORY HALF OF THE BINDING, proved by induction on the tree height over the real pruneToVerify / computeHashVisitor / operation.Accept code: whatever the audit path holds, if history.MembershipProof.Verify accepts against the true root hash Hist(0, len64(V), V) of version V and Index <= V, then the event digest is ev(Index) (spec functions Hist/evalC in /verif/contracts/spec/history.spec, unfolded once per occurrence; byte-string theory instantiated on the ground terms). The hyper half (key -> version) is NOT proved.",
            "Assumes: hash collision resistance (H injective, used as an axiom) and one hash function H for all hashers; position.Bytes = be64(index)||be16(height) (assumed, not yet proved against newPosition); what a cache answers is a function of the cache and the key while a proof is verified; dynamic dispatch of Accept/Visit* (each interface clause is the proved clause of the implementer); authentic snapshots; hasher factory pure and non-nil; interpretation of the hyper operation stack (closures stored in the stack) assumed panic-free; engine qedvc, go/ssa, SMT solvers.",
            "DESIGN.md section 4, C02"),
    "C12": ("Proof of panic-freedom (every index, slice, nil dereference, type assertion, explicit panic, division, make) and of termination of the recursive pruning closures, for ALL inputs, of the client-side decode-and-verify path: protocol.To*Proof, history.ParseAuditPath, history/hyper proof Verify with their pruning functions and visitors, balloon DigestVerify / IncrementalProof.Verify, client.Membership*/Incremental*/GetSnapshot/*Verify/*AutoVerify, and the auditor/monitor/publisher task closures on arbitrary gossiped batches. Seven genuine defects were found this way, replayed on the real code and fixed (known_findings.txt).",
            "Assumes: JSON decoding yields an arbitrary well-typed value or an error; the hyper stack interpreter closures (calls through operation.Interpret) are assumed panic-free and the stack never holds nil (stated `assumes` clause); memory exhaustion by oversized answers is not modelled; deployment preconditions (agent built with its services, hasher factory pure/non-nil).",
            "DESIGN.md section 4, C12"),
    "C13": ("Proof, for all inputs, that the Go-side wire translations preserve every field: ToBalloonProof/ToMembershipResult/ToIncrementalProof/ToIncrementalResponse field-by-field postconditions, history proof rebuilt with Index=ActualVersion and Version=QueryVersion, hyper value rebuilt with the hasher's length; big-endian helpers of util proved against be64/be16; AddPaddingToBytes total with its exact length contract.",
            "Assumes: encoding/json and msgpack codecs round-trip (decode(encode(x)) = x) - not verified; audit-path key string round trip (Sprintf/Split/Atoi) not verified; equal verification verdict of decoded and original proof follows only under those assumptions.",
            "DESIGN.md section 4, C13"),
    "C19": ("Proof, for all batches and all behaviours of the abstract services, that the auditor and monitor task closures raise an alert iff the verification they reached returned false (ghost counters alerts / verifyCalls / lastVerify defined by the contracts of Notifier.Alert and client.*Verify), perform at most one verification, report success only after a verification took place (no batch is waved through), and that the publisher task calls PutBatch at most once; plus panic-freedom of the three factories and tasks on arbitrary gossiped batches.",
            "Assumes: contracts of the services (Notifier, SnapshotStore, Cache, QED client) as ghost bookkeeping; 'no alert on an honest log' additionally needs completeness of the proofs (C01/C03), not proved here; publisher 'never forwards the same snapshot twice' relies on the cache contract (not modelled beyond at-most-one PutBatch per task).",
            "DESIGN.md section 4, C19"),
    "C05": ("Proof, for every call and therefore for every sequential history, of the version arithmetic on the real code: Balloon.Add gives the event the current version and advances it by one; Balloon.AddBulk advances it by len(bulk), returns one snapshot per event and (quantified loop invariant) the k-th snapshot carries version old+k and the k-th event digest; fsmState.shouldApply never accepts an index at or below the last applied one and only accepts a strictly larger balloon version; RaftNode.applyAdd advances the balloon by len(hashes); Balloon.RefreshVersion sets the counter to (last stored history version)+1 whatever it was before, and leaves it alone on an empty store; Version. One genuine defect (empty bulk) found, replayed and fixed.",
            "Assumes: the history/hyper tree insertion contracts (unverified tree internals: results have one digest per event); raft delivers committed entries once, in index order; Store.Mutate atomic; the history table holds 10-byte position keys; restarts/leader changes are consequences of these assumptions, not separately decided.",
            "DESIGN.md section 4, C05"),
    "C07": ("Narrow claim, proved: one Apply of a fresh entry performs EXACTLY ONE store write (ghost counter on Store.Mutate) whose mutation list ends with the FSM-state mutation (trees and state in the same batch), n.state is advanced only after it, an already applied entry (index <= last applied) writes nothing, and at most one write happens per Apply.",
            "Not decided: what happens between those steps at an arbitrary instant (RocksDB write-batch atomicity, raft log replay) - assumed. Store.Mutate's ghost bookkeeping defines what 'a write' is.",
            "DESIGN.md section 4, C07"),
    "C11": ("Proof of panic-freedom for ALL request contents of the public and management HTTP handlers (Add, AddBulk, Membership, DigestMembership, Incremental, Info*, HealthCheck, sanitizers, backup handlers), of RaftNode.Add/AddBulk/Query*, Balloon.Query*, HyperTree.QueryMembership's input guard and of the FSM Apply/applyAdd path under the proposer's guarantees; an empty bulk is never proposed (ghost counter on propose) and an already committed empty command is answered with an error; Balloon.QueryConsistency answers every range outside 0 <= start <= end < version with an error (the history visitor would panic on the missing node). Three genuine defects found, replayed and fixed (empty bulk, missing backupID, 33-byte digest).",
            "Assumes: net/http hands handlers non-nil writer/request/URL and recovers nothing for us; JSON decoding yields arbitrary well-typed values; the ClientApi behind the handlers is a RaftNode as contracted; hyper-tree search/insert internals unverified beyond their stated preconditions; the 'tampered store' explicit panics and log.Fatalf exits are by design; memory exhaustion by oversized bodies not modelled.",
            "DESIGN.md section 4, C11"),
    "C18": ("Proved per call: Agent.Send forwards nothing and leaves the message untouched when its TTL is not positive, and lowers the TTL by exactly one otherwise (ghost counter on the transport); every access to Topology.m in Update/Delete/Get/Each happens with the topology mutex held (lock-discipline obligations from a `guarded` declaration); PeerList.Filter/Exclude build a NEW list and write nothing of the receiver (frame + freshness, callback iteration with a syntactically read-only closure), Topology.Each only touches the list it builds. Two genuine defects found, replayed (one with the race detector) and fixed.",
            "Not decided: 'never routes to itself' (needs functional contracts for PeerList.Filter/Exclude with closures: Agent.route's contract is UNVERIFIED), 'tasks run at most once per batch' (cache eviction), interleavings of joins/leaves/sends. Lock discipline is a necessary condition for race freedom, not a proof of it.",
            "DESIGN.md section 4, C18"),
    "C20": ("Proof, for all topologies and preferences, with loop invariants (quantified round-robin bookkeeping) on the real topology.NextReadEndpoint: a returned endpoint is never dead and is permitted by the read preference; 'no endpoint' is answered only when no live permitted endpoint existed (completeness, all five preferences); a returned secondary is the FIRST live one after the old cursor in cyclic order and the cursor moves onto it; all loops terminate (decreasing measures). topology.Update installs the announced leader as a NEW endpoint of type primary, alive, and keeps the no-nil-entries invariant (nested loop invariants). callPrimary sends at most one request and only to the endpoint the topology names as primary, and its retry loop terminates; BackoffRequestRetrier.DoReq terminates within maxRetries+1 attempts.",
            "Not decided: callAny's termination (needs a cardinality measure over live endpoints); convergence on a new leader after discovery/redirect (liveness across requests).",
            "DESIGN.md section 4, C20"),
    "C04": ("Claimed for the HISTORY digest of a single insertion, proved by induction on the tree height over the real pruneToInsert / insertVisitor / operation.Accept code: on a cache that holds the true hash Hist(i,h,V) of every subtree completed before version V (StoreOK), HistoryTree.Add(d, V) with d = ev(V) returns exactly Hist(0, len64(V), V), the root hash that the specification function Hist assigns to the event sequence ev(0..V) - so the digest is a function of the sequence alone, not of cache contents, batching or timing. Each Visit*/Accept method is proved against one equation of the specification function evalI; the constructors' equations are proved by unfolding.",
            "Not decided: the hyper digest (key -> version map; the operation-stack interpreter is outside the verified subset); HistoryTree.AddBulk (one visitor over several versions needs a cache model with updates); that StoreOK is re-established after each insertion (the puts of the newly frozen nodes), i.e. the induction over the sequence itself; restarts. Assumes: one hash function H for all hashers; position.Bytes = be64(index)||be16(height); a cache's answers are a function of the cache and the key during one Add (entries put during an Add are never read back in it); dynamic dispatch.",
            "DESIGN.md section 4, C04"),
    "C09": ("Narrow claim, proved on the real code: (leader side) the state-transfer filter built in RaftNode.FetchSnapshot refuses with an error every batch whose previous version lies beyond the follower's position (a gap), ships exactly the batches that continue the sequence and moves its position to where they end, never skips a continuation and never moves on a refusal; (follower side) RaftNode.Restore performs at most one transfer and, after it, re-derives everything it keeps in memory from the store: fsm state, balloon version and the hyper-tree cache (ghost bookkeeping: each of the three was last derived after the last LoadSnapshot); the loading phase of HyperTree.RebuildCache reads the tile table TO ITS END, puts EVERY tile it reads into the cache (loop invariants over ghost counters of the reader and the cache) and releases the reader. Two genuine defects found: the reader was never closed (fixed), and, first, one genuine defect found (the hyper cache was never rebuilt after a transfer: a restored follower computed different hyper digests), demonstrated on the real balloon and fixed.",
            "Not decided: that the replayed batches reproduce the leader's store (RocksDB WAL iteration and write-batch replay are outside the verifier's reach: rocksdb is cgo and does not build in the sandbox), equality of proofs/digests of the restored node with the leader's (needs the tree contracts), schedules/fault sequences. Assumes: decodeMsgPack decodes what encode wrote (probes), loadState/RefreshVersion/RebuildCache bookkeeping clauses (`assumes`), attemptToFetchSnapshot leaves n.state alone.",
            "DESIGN.md section 4, C09"),
    "C14": ("Proved per call on the real code. In-memory back end: keys of table t are stored under the one-byte prefix of t; Get/GetLast/GetRange/GetAll only return entries of the table asked for (callback-iteration invariants over the B-tree scan; two genuine leaks between tables found, replayed and fixed: GetLast and the reader behind GetAll/GetRange); GetLast's descent callback goes on while it is above the table and stops at or below it (necessary for 'the greatest key of that table'). Durable back end, relative to the assumed contract of the RocksDB wrapper: Mutate puts ALL mutations of a call, and the metadata, into ONE write batch handed over with ONE Write; Get reads the key in the column family of the table asked for.",
            "Not decided: the sorted-map semantics of google/btree and of RocksDB themselves (assumed contracts in /verif/contracts/trusted), atomic visibility, durability across close/reopen (C engine), functional contracts of bplus GetRange bounds and Mutate. Nothing in storage/rocks can be replayed in the sandbox (cgo does not build).",
            "DESIGN.md section 4, C14"),
    "C15": ("Proved per call on the real code, relative to the assumed contract of the RocksDB wrapper: raftLog.StoreLog writes the entry under the 8-byte big-endian bytes of ITS index in the log table with one write; StoreLogs puts all entries in one batch / one write; GetLog looks up the big-endian bytes of the index asked for; DeleteRange removes the INCLUSIVE range [min,max] (half-open engine range, hence max+1, no overflow by precondition); FirstIndex/LastIndex seek to first/last and decode 8-byte keys without panicking; Set/Get/SetUint64/GetUint64 use the stable table under the caller's key, big-endian values; decodeRaftLog hands back, field by field (Index, Term, Type, Data, Extensions), what the stored bytes decode to.",
            "Assumes: the wrapper contract (what PutCF/DeleteRangeCF/iterators do), msgpack encode/decode of raft.Log round-trips, the log table only holds 8-byte keys (stated as a precondition), persistence across close/reopen is RocksDB's. Failures cannot be replayed (cgo).",
            "DESIGN.md section 4, C15"),
    "C16": ("Narrow claim, proved per call on the real Go side of backups, relative to the assumed contract of the RocksDB backup engine: RocksDBStore.Backup asks for exactly one engine backup carrying the caller's metadata unchanged; DeleteBackup deletes exactly the named id; RestoreFromBackup passes the named id and the two directories in the right order; GetBackupsInfo lists EVERY backup the engine reports, field by field (quantified loop invariant); RaftNode.CreateBackup/DeleteBackup forward exactly one such request (for the named id); the management handlers are panic-free for all requests (a missing backupID is answered with 400: genuine defect found, replayed with httptest, fixed), and the DELETE handler asks for at most one deletion, of exactly the number in the query string (an id beyond 32 bits is refused, never truncated to another backup's id).",
            "Not decided: that the restored database equals the log as of the backup's version and what the restored node proves/assigns afterwards (RocksDB backup engine, cgo; and tree contracts). Assumes the backup-engine contract in /verif/contracts/trusted.",
            "DESIGN.md section 4, C16"),
    "C17": ("Narrow claim, proved for ONE batcher run sequentially on the real code: Sender.doSign signs a snapshot exactly once (ghost counter on Signer.Sign) and returns it with its own signature; the batch never grows beyond the configured BatchSize (loop invariant of Sender.batcher); whatever the batcher publishes is a batch message carrying the configured TTL.",
            "Not decided: 'exactly once / nothing lost or duplicated whatever the arrival pattern' across several batcher goroutines on one channel (Go channel semantics, schedules), and that the signature binds the content (ed25519, assumed). Signer and MessageBus.Publish are ghost-bookkeeping contracts.",
            "DESIGN.md section 4, C17"),
}

NA = {
    "C01": "completeness (every added event has a verifying proof) needs contracts for the PROVER side - the audit-path visitor, the read sets of pruneToFind/pruneToFindConsistent, the hyper-tree prover (an operation-stack interpreter outside the verified subset) - and a cache model with updates to carry the store invariant from one insertion to the next; only the verifier side (C02) and the digest of a single insertion (C04) could be brought under contract, so no check decides C01 (DESIGN.md 0.3)",
    "C03": "soundness of consistency proofs needs inductive read-set contracts over the two-target traversals (targetsList.Split/InsertSorted) and a lemma that frozen subtrees hash the same in every later version (DESIGN.md appendix A.6); these were designed but not built, so nothing decides the property; its request range check is proved under C11",
    "C08": "restart equivalence needs a functional contract of the hyper tree's cache rebuild above the persisted tiles (operation-stack interpreter, outside the verified subset) and shutdown needs a release-what-you-acquired typestate over the RocksDB wrapper that was not built; the two clauses that were built (RebuildCache reads the tile table to its end and releases its reader) are proved under C09 (DESIGN.md 0.3)",
    "C06": "replica agreement quantifies over schedules/fault sequences of raft nodes on RocksDB; no sequential per-function contract within reach expresses it (DESIGN.md section 5)",
    "C10": "quantifies over interleavings of query goroutines with the apply path and data races; the contract verifier is sequential (DESIGN.md section 5)",
}

ALL = ["C%02d" % i for i in range(1, 21)]

checks = []
for pid in ALL:
    if pid in CLAIMS:
        text, note, ref = CLAIMS[pid]
        checks.append({
            "property_id": pid,
            "quick_cmd": "/verif/bin/qedvc check -property %s -tier quick" % pid,
            "thorough_cmd": "/verif/bin/qedvc check -property %s -tier thorough" % pid,
            "evidence_file": "/verif/evidence/%s.json" % pid,
            "replay_cmd_template": "cat {path}",
            "engine": "qedvc",
            "level_claimed": {"category": "proof", "text": text, "design_ref": ref},
            "level_note": note,
            "technique": TECH,
        })

na = []
for pid in ALL:
    if pid in CLAIMS:
        continue
    na.append({"property_id": pid, "reason": NA.get(pid, "contracts for this property are not built yet (work in progress; see DESIGN.md section 8)")})

m = {
    "version": 1,
    "setup_cmd": "cd /verif/engine && GOFLAGS=-mod=mod GOPROXY=off GOSUMDB=off GOTOOLCHAIN=local go build -o /verif/bin/qedvc ./cmd/qedvc",
    "hooks": {
        "guard": "verif",
        "enable": "contracts are comment-only files /repo/<pkg>/contracts_verif.go with '// +build verif'; qedvc loads /repo with -tags=verif and reads them; no executable code is added",
        "baseline_off_cmd": "/verif/tools/baseline.sh",
        "source_commits": hooks,
        "add_only": True,
    },
    "engines": [{"name": "qedvc", "path": "/verif/engine", "serves_properties": sorted(CLAIMS), "kind_free_text": "verification-condition generator for Go (go/ssa, naive form) + SMT discharge (z3 5.1, z3 4.8, cvc5) + counterexample replay via go test -overlay"}],
    "checks": checks,
    "not_applicable": na,
    "notes": "Known findings and fixed defects: /verif/known_findings.txt. Seeded breaking changes: /verif/seeded/. See DESIGN.md.",
}
json.dump(m, open("/verif/MANIFEST.json", "w"), indent=1)
print("claimed:", sorted(CLAIMS), "n/a:", len(na))
