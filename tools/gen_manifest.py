#!/usr/bin/env python3
"""Generates /verif/MANIFEST.json from the table below (kept here so the manifest stays valid)."""
import json, subprocess

HOOK_COMMITS = subprocess.run(
    ["git", "-C", "/repo", "log", "--format=%h %s"], capture_output=True, text=True).stdout.splitlines()
hooks = [l.split()[0] for l in HOOK_COMMITS if "verif hooks" in l]

TECH = "contract-based deductive verification: WP/symbolic execution over go/ssa of the real functions, contracts in //+build verif comment files, obligations discharged by z3/cvc5"

# id -> (claimed?, level text, level note, design ref)
CLAIMS = {
    "C02": ("Proof, for all proofs/digests/snapshots, that the real balloon.MembershipProof.DigestVerify only accepts when Exists and ActualVersion <= QueryVersion and both sub-proofs are present (postconditions taken from the property statement), plus panic-freedom of that function. The binding of the digest inside the history/hyper verifiers is covered only as far as the contracts listed in evidence/C02.json reach.",
            "Assumes: hash collision resistance; authentic snapshots; hyper.QueryProof.Verify and history.MembershipProof.Verify are used through their contracts; engine qedvc, go/ssa, SMT solvers.",
            "DESIGN.md section 4, C02"),
}

NA = {
    "C06": "replica agreement quantifies over schedules/fault sequences of raft nodes on RocksDB; no sequential per-function contract within reach expresses it (DESIGN.md section 5)",
    "C10": "quantifies over interleavings of query goroutines with the apply path and data races; the contract verifier is sequential (DESIGN.md section 5)",
}

ALL = ["C%02d" % i for i in range(1, 21)]

checks = []
for pid in ALL:
    if pid in CLAIMS:
        text, note, ref = CLAIMS[pid]
        checks.append({
            "property_id": pid,
            "quick_cmd": "/verif/bin/qedvc check -property %s -tier quick" % pid,
            "thorough_cmd": "/verif/bin/qedvc check -property %s -tier thorough" % pid,
            "evidence_file": "/verif/evidence/%s.json" % pid,
            "replay_cmd_template": "cat {path}",
            "engine": "qedvc",
            "level_claimed": {"category": "proof", "text": text, "design_ref": ref},
            "level_note": note,
            "technique": TECH,
        })

na = []
for pid in ALL:
    if pid in CLAIMS:
        continue
    na.append({"property_id": pid, "reason": NA.get(pid, "contracts for this property are not built yet (work in progress; see DESIGN.md section 8)")})

m = {
    "version": 1,
    "setup_cmd": "cd /verif/engine && GOFLAGS=-mod=mod GOPROXY=off GOSUMDB=off GOTOOLCHAIN=local go build -o /verif/bin/qedvc ./cmd/qedvc",
    "hooks": {
        "guard": "verif",
        "enable": "contracts are comment-only files /repo/<pkg>/contracts_verif.go with '// +build verif'; qedvc loads /repo with -tags=verif and reads them; no executable code is added",
        "baseline_off_cmd": "/verif/tools/baseline.sh",
        "source_commits": hooks,
        "add_only": True,
    },
    "engines": [{"name": "qedvc", "path": "/verif/engine", "serves_properties": sorted(CLAIMS), "kind_free_text": "verification-condition generator for Go (go/ssa, naive form) + SMT discharge (z3 5.1, z3 4.8, cvc5) + counterexample replay via go test -overlay"}],
    "checks": checks,
    "not_applicable": na,
    "notes": "Known findings and fixed defects: /verif/known_findings.txt. Seeded breaking changes: /verif/seeded/. See DESIGN.md.",
}
json.dump(m, open("/verif/MANIFEST.json", "w"), indent=1)
print("claimed:", sorted(CLAIMS), "n/a:", len(na))
