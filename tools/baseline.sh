#!/bin/bash
# Runs the repository's pinned test suite with the verif guard OFF and prints pass/fail counts.
export GOFLAGS=-mod=mod GOPROXY=off GOSUMDB=off GOTOOLCHAIN=local
cd /repo && go test -mod=mod -json -vet=off -count=1 -timeout 25m ./... 2>&1 | python3 -c '
import sys, json
p=f=0; failed=[]
for l in sys.stdin:
    try: e=json.loads(l)
    except Exception: continue
    if e.get("Test") and e.get("Action")=="pass": p+=1
    if e.get("Test") and e.get("Action")=="fail": f+=1; failed.append(e["Package"]+"::"+e["Test"])
print("passed",p,"failed",f)
for x in failed: print("FAILED",x)
sys.exit(1 if f or p<104 else 0)
'
