#!/bin/bash
# seed_import.sh <id> <worktree>: confirm a seeded breaking change in its scratch worktree and store it under /verif/seeded/<id>/
# (build with the RocksDB-skeleton overlay, pinned tests, demo test fails on the change and passes without it)
set -u
id=$1; wt=$2
export GOFLAGS=-mod=mod GOPROXY=off GOSUMDB=off GOTOOLCHAIN=local
out=/verif/seeded/$id; mkdir -p $out
cd $wt || exit 2
git diff -- . ':(exclude)*contracts_verif.go' > $out/patch.diff
files=$(git diff --name-only -- . ':(exclude)*contracts_verif.go' | tr '\n' ' ')
nfiles=$(echo $files | wc -w)
cp SEED_DEMO.md $out/ 2>/dev/null
cp seed_demo_test.go.txt $out/ 2>/dev/null
build=ok; go build -overlay $wt/.ovl/overlay.json ./... >/tmp/seed_$id.build 2>&1 || build=FAIL
tests=ok; go test -vet=off -count=1 ./client/... ./gossip/... ./log/... ./testutils/spec/... ./crypto/... ./storage/bplus/... >/tmp/seed_$id.tests 2>&1 || { go test -vet=off -count=1 ./gossip/... >/tmp/seed_$id.tests2 2>&1 && grep -q "^FAIL" /tmp/seed_$id.tests && ! grep "^FAIL" /tmp/seed_$id.tests | grep -qv gossip && tests="ok(gossip flaky, rerun ok)" || tests=FAIL; }
demo_changed=na; demo_orig=na
if [ -f seed_demo_test.go.txt ]; then
  dir=$(head -1 seed_demo_test.go.txt | sed 's/.*package dir: *//; s/[[:space:]]*$//')
  cp seed_demo_test.go.txt $dir/zz_seed_demo_test.go
  if go test -overlay $wt/.ovl/overlay.json -vet=off -count=1 -run TestSeedDemo ./$dir/ >/tmp/seed_$id.demo1 2>&1; then demo_changed=PASS; else demo_changed=FAIL; fi
  git apply -R $out/patch.diff
  if go test -overlay $wt/.ovl/overlay.json -vet=off -count=1 -run TestSeedDemo ./$dir/ >/tmp/seed_$id.demo0 2>&1; then demo_orig=PASS; else demo_orig=FAIL; fi
  git apply $out/patch.diff
  rm -f $dir/zz_seed_demo_test.go
fi
python3 - "$id" "$files" "$build" "$tests" "$demo_changed" "$demo_orig" > $out/meta.json <<'PY'
import json,sys
i,files,build,tests,dc,do=sys.argv[1:7]
print(json.dumps({"property":i,"files":files.split(),"origin":"fresh sub-agent given only the property text and a scratch worktree","build_with_change":build,"pinned_tests_with_change":tests,"demo_on_changed_code":dc,"demo_on_original_code":do,"detected_by":None},indent=1))
PY
echo "$id files=[$files] n=$nfiles build=$build tests=$tests demo_changed=$demo_changed demo_orig=$demo_orig lines=$(wc -l < $out/patch.diff)"
